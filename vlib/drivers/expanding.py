"""Driver for ExpandingBloomFilter and RotatingBloomFilter growth / rotation behaviour (C09, C10, C14).

Case: {"rot": bool, "est": n, "fpr": p, "q": max_queue_size, "hash": name,
       "ops": [["new"], ["dup", i], ["forced", i], ["push"], ["pop"], ["reload", ch]]}
Keys come from an unbounded sequence "k<i>" (str or bytes by parity) so that genuinely new keys are
always available; "dup"/"forced" pick an earlier key by index modulo the number used so far.
Whether an add is *effective* is decided by what the structure itself answered to check(key)
immediately before (false positives included), exactly as the property is worded.

P: growth  (C09) per-filter insertion counts == model, <= est, expansions formula, add counting
   bound   (C10) 1 <= queue <= max, per-filter counts <= est, pop semantics
   window  (C10) recency guarantee
   counter (C14) elements_added == number of add calls
"""
import io
import math
import struct

from ..gen import hash_by_name


def parse_stream(raw):
    """independent parser of the expanding/rotating export: returns (counts, est, added, fpr, blobs)"""
    n, est, added, fpr = struct.unpack("QQQf", raw[-28:])
    body = len(raw) - 28
    if n == 0 or body % n:
        return None
    per = body // n
    counts, blobs = [], []
    for i in range(n):
        counts.append(struct.unpack("Q", raw[i * per: i * per + 8])[0])
        blobs.append(raw[i * per + 8: (i + 1) * per])
    return counts, est, added, fpr, blobs


class ExpandingDriver:
    def __init__(self, case, ctx, P):
        from probables import ExpandingBloomFilter, RotatingBloomFilter
        from probables.exceptions import RotatingBloomFilterError

        self.E, self.R, self.RErr = ExpandingBloomFilter, RotatingBloomFilter, RotatingBloomFilterError
        self.case, self.ctx, self.P = case, ctx, P
        self.rot = bool(case["rot"])
        self.est, self.fpr, self.q = case["est"], case["fpr"], case.get("q", 3)
        self.hf = hash_by_name(case["hash"])
        self.used = 0
        self.model = [0]  # per-filter insertion counts
        self.add_calls = 0
        self.effective = 0
        self.pushes = 0
        self.window = {}  # key -> effective-insertion index of its latest real insertion
        self.inserted = set()  # keys that were certainly inserted (expanding filters never forget them)
        self._nh = None
        self.feats = set()
        self.dir = None
        self.nfile = 0
        # how precomputed hash lists are handed to the *_alt entry points: "fresh" = a new list per call, "scratch" = ONE list object
        # whose contents are overwritten for every call (a caller's reusable buffer), "perkey" = one list object per key, computed
        # once and reused for every call and every live filter (hcache may be shared with a twin driver of different geometry)
        self.alt_mode = case.get("alt_mode", "fresh")
        self.scratch = []
        self.hcache = {}
        self.depth_extra = 0 if case["hash"] == "depthdep" else 3  # a longer list is the same key only for prefix-stable strategies
        self.last_alt_probe = False
        if self.rot:
            self.obj = self.R(self.est, self.fpr, max_queue_size=self.q, hash_function=self.hf)
        else:
            self.obj = self.E(self.est, self.fpr, hash_function=self.hf)
        self.noexc = ctx.prop + ".no_exception"

    def key(self, i):
        return ("k%d" % i) if i % 2 == 0 else ("k%d" % i).encode()

    def _o(self, n):
        return self.P.get(n)

    def _model_new_filter(self):
        if self.rot and len(self.model) >= self.q:
            self.model.pop(0)
            self.feats.add("rotation_dropped_filter")
        self.model.append(0)

    def _hashes(self, key):
        """hash list for the precomputed entry points, longer than the filter needs, as the object the case's alt_mode prescribes"""
        from probables import BloomFilter
        from probables.hashes import default_fnv_1a
        if self._nh is None:
            self._nh = BloomFilter(self.est, self.fpr).number_hashes
        if self.alt_mode == "perkey":
            if key not in self.hcache:
                self.hcache[key] = (self.hf if self.hf is not None else default_fnv_1a)(key, self._nh + self.depth_extra)
            return self.hcache[key]
        hs = (self.hf if self.hf is not None else default_fnv_1a)(key, self._nh + self.depth_extra)
        if self.alt_mode == "scratch":
            self.scratch[:] = hs
            return self.scratch
        return hs

    def _force_value(self, force):
        # the flag is documented as a bool and judged by truthiness; callers also pass 0 / 1
        if not self.case.get("intflags"):
            return force
        return (True, 1)[self.add_calls % 2] if force else (False, 0)[self.add_calls % 2]

    def _add(self, key, force, label, precheck=True):
        ctx, o = self.ctx, self.obj
        use_alt = self.add_calls % 4 == 3 or (self.last_alt_probe and self.alt_mode != "fresh")
        self.last_alt_probe = False
        if (precheck or self.rot or (key not in self.inserted and not force)) and use_alt and self.alt_mode != "fresh":
            # the look-up goes through the precomputed entry point as well, with the same list object as the add that follows
            present = ctx.call(self.noexc, o.check_alt, self._hashes(key))
            self.feats.add("check_alt_before_add_alt_same_list")
        elif precheck or self.rot or (key not in self.inserted and not force):
            present = ctx.call(self.noexc, o.check, key)
        elif force and key not in self.inserted:
            present = False  # irrelevant: a forced add is always effective
            self.feats.add("add_without_preceding_lookup")
        else:
            # an expanding filter never drops a filter: a key inserted earlier is certainly still reported present, so the add
            # can be issued WITHOUT a look-up right before it (a look-up would reset any per-lookup cache in the library)
            present = True
            self.feats.add("add_without_preceding_lookup")
        fv = self._force_value(force)
        if use_alt:
            # precomputed-hash entry point, with a list computed for a larger depth than the filter uses
            ctx.call(self.noexc, o.add_alt, self._hashes(key), fv)
            self.feats.add("add_alt_longer_list")
            if self.alt_mode != "fresh":
                self.feats.add("alt_list_" + self.alt_mode)
        else:
            ctx.call(self.noexc, o.add, key, fv)
        if fv is not force:
            self.feats.add("force_flag_as_int")
        self.add_calls += 1
        eff = force or not present
        if eff:
            if self.model[-1] >= self.est:
                if self.model[-1] == self.est:
                    self.feats.add("boundary_est+1th")
                self._model_new_filter()
                self.feats.add("growth")
            self.model[-1] += 1
            if self.model[-1] == self.est:
                self.feats.add("boundary_est-th")
            self.effective += 1
            self.inserted.add(key)
            if self.rot and not present:
                # reported absent just before the add: the recency guarantee starts here
                self.window[key] = [self.effective, (self.q - 1) * self.est]
        else:
            self.feats.add("ineffective_add")
        ctx.op(label, repr(key), bool(force), bool(present))
        return eff

    def step(self, op):
        ctx, o = self.ctx, self.obj
        kind = op[0]
        if kind == "new" or (kind in ("dup", "forced") and self.used == 0):
            k = self.key(self.used)
            self.used += 1
            self._add(k, False, "new")
        elif kind == "dup":
            self._add(self.key(op[1] % self.used), False, "dup", precheck=(len(op) < 3 or not op[2]))
            self.feats.add("dup")
        elif kind == "forced":
            self._add(self.key(op[1] % self.used), True, "forced", precheck=(len(op) < 3 or not op[2]))
            self.feats.add("forced")
        elif kind == "probe":
            # a stand-alone look-up (no add): of a brand-new key (which is thereby 'used' but not inserted) or of an earlier one
            if op[1] % 2 == 0 or self.used == 0:
                k = self.key(self.used)
                self.used += 1
            else:
                k = self.key(op[1] % self.used)
            if self.alt_mode != "fresh" and op[1] % 3 != 1:
                r = ctx.call(self.noexc, o.check_alt, self._hashes(k))
                self.last_alt_probe = True
                self.feats.add("probe_alt")
            else:
                r = ctx.call(self.noexc, o.check, k)
            if not self.rot and k in self.inserted and self._o("growth"):
                ctx.check(self._o("growth"), r is True, lambda: f"stand-alone check({k!r}) of an inserted key -> {r!r}")
            self.feats.add("probe")
            ctx.op("probe", repr(k), bool(r))
            return
        elif kind == "refused_alt":
            # a forced add through the precomputed entry point with a list that is one hash too short: it raises (which exception is
            # not specified) - the caller carries on. Whatever the call did before failing, it was no insertion: per-filter counts,
            # growth and rotation go on as if it had not happened (whether the outer add counter moved is left open)
            k = self.key(self.used)
            self.used += 1
            full = list(self._hashes(k))
            if self._nh is None or self._nh < 1:
                return
            short = full[: self._nh - 1]
            before_added = o.elements_added
            try:
                o.add_alt(short, True)
                raised = False
            except Exception:  # noqa
                raised = True
            if not raised:
                # accepted: then it was a forced insertion like any other
                if self.model[-1] >= self.est:
                    self._model_new_filter()
                self.model[-1] += 1
                self.effective += 1
                self.add_calls += 1
                self.feats.add("short_hash_list_accepted")
            else:
                if o.elements_added == before_added + 1:
                    self.add_calls += 1
                parsed = parse_stream(bytes(o))
                if parsed is not None and parsed[0] and parsed[0][-1] == 0 and self.model[-1] >= self.est:
                    # the newest filter was full: the call grew / rotated before it failed - exactly what an explicit push() does
                    # (malformed input is outside the property; its side effect is modelled as that push, nothing more)
                    self._model_new_filter()
                    self.pushes += 1
                    self.window.clear()
                    self.feats.add("refused_add_alt_grew_first")
                self.feats.add("refused_add_alt_short_list")
            ctx.op("refused_alt", repr(k))
        elif kind == "bulk":
            n = 1 + op[1] % (self.est + 6)
            for _ in range(n):
                k = self.key(self.used)
                self.used += 1
                self._add(k, False, "new")
            self.feats.add("bulk")
        elif kind == "push":
            ctx.call(self.noexc, o.push)
            self._model_new_filter()
            self.pushes += 1
            self.window.clear()
            self.feats.add("push")
            ctx.op("push")
        elif kind == "pop":
            if not self.rot:
                return self.step(["push"])
            before = bytes(o)
            status, r = ctx.lib(self.noexc, o.pop, allow=(self.RErr,))
            if len(self.model) == 1:
                if self._o("bound"):
                    ctx.check(self._o("bound"), status == "exc", "pop on a single-filter queue was not refused")
                    ctx.check(self._o("bound"), bytes(o) == before, "refused pop changed the filter")
                self.feats.add("pop_refused")
            else:
                if self._o("bound"):
                    ctx.check(self._o("bound"), status == "ok", f"pop with {len(self.model)} filters raised {r!r}")
                self.model.pop(0)
                self.feats.add("pop")
            self.window.clear()
            ctx.op("pop")
        elif kind == "reload":
            self._reload(op[1], op[2] if len(op) > 2 else 0)
        else:
            raise ValueError(op)
        self.verify(f"after {op}")

    def _reload(self, ch, dq=0):
        ctx, o = self.ctx, self.obj
        ch = ch % 4
        K = self.R if self.rot else self.E
        if self.rot and dq:
            # the export does not record max_queue_size: the loader supplies it, and may supply another value than the writer used.
            # A smaller one must leave the most recent filters (the bound holds for the loaded object, the window shrinks to the
            # new (Q-1)*est); a larger one only lengthens retention, so every key keeps the smallest bound seen since its insertion
            newq = max(1, self.q + dq)
            if newq != self.q:
                self.feats.add("reload_with_smaller_queue" if newq < self.q else "reload_with_larger_queue")
                if newq < len(self.model):
                    self.feats.add("reload_truncates_queue")
                    del self.model[: len(self.model) - newq]
                self.q = newq
                for v in self.window.values():
                    v[1] = min(v[1], (self.q - 1) * self.est)
        if ch == 0:
            raw = bytes(o)
            if self.rot:
                new = ctx.call(self.noexc, K.frombytes, raw, self.q, self.hf)
            else:
                new = ctx.call(self.noexc, K.frombytes, raw, self.hf)
        else:
            import os
            if self.dir is None:
                self.dir = ctx.tmpdir()
            self.nfile += 1
            p = os.path.join(self.dir, "e%d.ebf" % self.nfile)
            if ch == 1:
                ctx.call(self.noexc, o.export, p)
            else:
                with open(p, "wb") as fh:
                    ctx.call(self.noexc, o.export, fh)
            kw = {}
            if ch == 3:
                # load-or-create idiom: explicit sizing arguments given together with an existing file - the documented
                # initialisation order says the file wins
                kw = {"est_elements": self.est + 3, "false_positive_rate": 0.25}
                self.feats.add("reload_with_conflicting_params")
            if self.rot:
                new = ctx.call(self.noexc, K, filepath=p, max_queue_size=self.q, hash_function=self.hf, **kw)
            else:
                new = ctx.call(self.noexc, K, filepath=p, hash_function=self.hf, **kw)
        self.obj = new
        self.feats.add("reload")
        if self.model[-1] in (self.est, self.est - 1):
            self.feats.add("reload_at_boundary")
        ctx.op("reload", ch)

    def verify(self, what):
        ctx, o = self.ctx, self.obj
        parsed = parse_stream(bytes(o))
        g = self._o("growth")
        if g:
            ctx.check(g, parsed is not None, f"{what}: export is not a whole number of filters")
            counts = parsed[0]
            ctx.check(g, counts == self.model, lambda: f"{what}: per-filter insertion counts {counts} != model {self.model} (est={self.est})")
            ctx.check(g, all(c <= self.est for c in counts), lambda: f"{what}: a filter holds more than est={self.est}: {counts}")
            ctx.check(g, o.expansions == len(self.model) - 1, lambda: f"{what}: expansions {o.expansions} != {len(self.model)-1}")
            if self.pushes == 0 and not self.rot:
                want = max(0, math.ceil(self.effective / self.est) - 1)
                ctx.check(g, o.expansions == want, lambda: f"{what}: expansions {o.expansions} != max(0, ceil({self.effective}/{self.est})-1) = {want}")
            ctx.check(g, o.elements_added == self.add_calls, lambda: f"{what}: elements_added {o.elements_added} != add calls {self.add_calls}")
            ctx.check(g, parsed[1] == self.est and parsed[2] == self.add_calls, f"{what}: footer est/added {parsed[1:3]}")
        b = self._o("bound")
        if b:
            counts = parsed[0] if parsed else []
            qs = o.current_queue_size
            ctx.check(b, 1 <= qs <= self.q, lambda: f"{what}: current_queue_size {qs} outside 1..{self.q}")
            ctx.check(b, qs == len(self.model) == len(counts), lambda: f"{what}: queue size {qs}, exported filters {len(counts)}, model {len(self.model)}")
            ctx.check(b, all(c <= self.est for c in counts), lambda: f"{what}: a filter holds more than est={self.est}: {counts}")
            ctx.check(b, counts == self.model, lambda: f"{what}: per-filter counts {counts} != model {self.model}")
            ctx.check(b, o.max_queue_size == self.q, "max_queue_size changed")
        w = self._o("window")
        if w:
            for k, (t, limit) in self.window.items():
                age = self.effective - t
                if age <= limit:
                    r = o.check(k)
                    ctx.check(w, r is True and (k in o), lambda: f"{what}: key {k!r} inserted {age} effective insertions ago (<= (Q-1)*est = {limit}) is reported absent")
                    if age >= self.est:
                        self.feats.add("window_checked_age>=est")
                    if age == limit and limit > 0:
                        self.feats.add("window_checked_at_limit")
        c = self._o("counter")
        if c:
            ctx.check(c, o.elements_added == self.add_calls,
                      lambda: f"{what}: {'rotating' if self.rot else 'expanding'} elements_added {o.elements_added} != add calls {self.add_calls}")

    def run(self):
        self.verify("fresh")
        for op in self.case["ops"]:
            self.step(op)
        self.finish()

    def finish(self):
        for f in self.feats:
            self.ctx.feat(f)
        self.ctx.feat("est=%s" % (self.est if self.est < 4 else "4+"))
        if self.rot:
            self.ctx.feat("Q=%d" % self.q)


def run_twins(case, ctx, P):
    """run the case on one driver, or (case["twin"] = d > 0) on TWO live filters of different geometry (est and est + d) that receive the
    same operations in lock-step and share one hash-list object per key for the precomputed entry points, while every verification
    goes through the key-based API: whatever one filter does to a caller's list, or keeps in state shared between instances, shows
    in the other"""
    d1 = ExpandingDriver(case, ctx, P)
    tw = case.get("twin")
    if case["hash"] == "depthdep":
        tw = 0  # one list serves two filters of different depth only for prefix-stable strategies
    if not tw:
        d1.run()
        return d1
    from probables import BloomFilter
    d2 = ExpandingDriver(dict(case, est=case["est"] + tw), ctx, P)
    d1.alt_mode = d2.alt_mode = "perkey"
    d2.hcache = d1.hcache
    d1._nh = d2._nh = max(BloomFilter(d1.est, d1.fpr).number_hashes, BloomFilter(d2.est, d2.fpr).number_hashes)
    d1.verify("fresh")
    d2.verify("twin fresh")
    for op in case["ops"]:
        d1.step(op)
        d2.step(op)
    d1.feats |= d2.feats
    d1.feats.add("twin_filters_sharing_hash_lists")
    d1.finish()
    return d1


def case_strategy(tier, rot, max_ops=80):
    from hypothesis import strategies as st

    from .. import gen

    i = st.integers(0, 40)
    base = [st.tuples(st.just("new")), st.tuples(st.just("new")), st.tuples(st.just("new")),
            st.tuples(st.just("dup"), i, st.booleans()), st.tuples(st.just("forced"), i, st.booleans()),
            st.tuples(st.just("probe"), i), st.tuples(st.just("bulk"), st.integers(0, 400)), st.tuples(st.just("refused_alt")),
            st.tuples(st.just("reload"), st.integers(0, 3), st.sampled_from([0, 0, 0, -1, -2, 1] if rot else [0]))]
    rare = [st.tuples(st.just("push"))] + ([st.tuples(st.just("pop"))] if rot else [])

    @st.composite
    def case(draw):
        with_pushpop = draw(st.integers(0, 3)) == 0
        op = st.one_of(*(base + (rare * 2 if with_pushpop else [])))
        return {
            "rot": rot,
            "est": draw(st.one_of(st.integers(1, 5), st.integers(1, 3), st.integers(1, 50 if not rot else 8),
                                  st.integers(1, (300 if tier == "quick" else 2500) if not rot else 8))),
            "fpr": draw(st.sampled_from([0.05, 0.01, 0.001, 0.2, 0.5, 0.0001, 0.3, 0.35, 0.4, 0.1, 0.6, 0.65, 0.7])),  # up to the largest rates the sizing accepts (few bits: saturated early)
            "q": draw(st.integers(1, 4)),
            "hash": draw(gen.hash_name_st(gen.GOOD_HASHES + ["pairs"])),
            "ops": [list(o) for o in draw(st.lists(op, min_size=5, max_size=max_ops))],
            "alt_mode": draw(st.sampled_from(["fresh", "scratch", "perkey"])),
            "intflags": draw(st.booleans()),
            "twin": draw(st.sampled_from([0, 0, 0, 1, 2])),
        }

    return case()
