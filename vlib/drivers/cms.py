"""Driver for the count-min family (C02, C14, C17): CountMinSketch, HeavyHitters, StreamThreshold.

Case: {"cls": "cms"|"hh"|"st", "w": width, "d": depth | "conf","err", "hash": name, "pool": [keys],
       "hitters": n, "threshold": t, "ops": [["add", ki, n], ["remove", ki, tape], ["clear"]]}
remove amounts are resolved by construction to 1 + tape % outstanding(key); a remove of a key with
nothing outstanding (and every remove on HeavyHitters, which does not support it) becomes an add.

P: bounds  true[k] <= check(k) <= elements_added for every pool key after every step
   retval  value returned by add/remove == check(key) immediately afterwards
   exact   a key sharing no counter with any other key ever added is estimated exactly
   counter elements_added == sum of outstanding amounts
   hh / st table consistency (C17)
"""
from collections import Counter

from ..gen import dk, hash_by_name


class CmsDriver:
    def __init__(self, case, ctx, P):
        from probables import CountMinSketch, HeavyHitters, StreamThreshold

        self.case, self.ctx, self.P = case, ctx, P
        self.cls = case["cls"]
        self.hf = hash_by_name(case["hash"])
        self.pool = [dk(k) for k in case["pool"]]
        kw = {"hash_function": self.hf}
        if "conf" in case:
            kw.update(confidence=case["conf"], error_rate=case["err"])
        else:
            kw.update(width=case["w"], depth=case["d"])
        if self.cls == "cms":
            self.obj = CountMinSketch(**kw)
        elif self.cls == "hh":
            self.obj = HeavyHitters(num_hitters=case["hitters"], **kw)
        else:
            self.obj = StreamThreshold(threshold=case["threshold"], **kw)
        self.w, self.d = self.obj.width, self.obj.depth
        self.qt = "min"
        if P.get("vary_query") and self.cls in ("st", "hh") and case.get("qt") in ("mean", "mean-min") and (case["qt"] == "mean" or self.w >= 2):
            # the threshold table is defined by the RETURNED estimates, whatever the query type
            self.qt = case["qt"]
            self.obj.query_type = self.qt
        if self.qt == "min" and len(case["pool"]) % 3:
            # the default query written out explicitly ('min' or None are the documented spellings of it)
            self.obj.query_type = "min" if len(case["pool"]) % 3 == 1 else None
            ctx.feat("query_type_min_assigned")
        self.true = Counter()
        self.ever = set()  # keys ever added (for the exactness precondition)
        self.last = {}  # most recent value returned by add/remove per key (since clear)
        self.total = 0
        self.feats = set()
        self.noexc = ctx.prop + ".no_exception"
        self.cells = {k: self._cells(k) for k in self.pool}

    def _cells(self, key):
        hs = (self.hf if self.hf is not None else __import__("probables").hashes.default_fnv_1a)(key, self.d)
        return [(h % self.w) + i * self.w for i, h in enumerate(hs)]

    def _o(self, n):
        return self.P.get(n)

    def step(self, op):
        ctx, o = self.ctx, self.obj
        kind = op[0]
        if kind == "clear":
            ctx.call(self.noexc, o.clear)
            self.true.clear()
            self.ever.clear()
            self.last.clear()
            self.total = 0
            self.reloaded = False
            self.feats.add("clear")
            ctx.op("clear")
            return self.verify("after clear")
        if kind == "reload":
            return self._reload(op[1])
        if kind == "join":
            return self._join(op[1])
        k = self.pool[op[1] % len(self.pool)]
        if kind == "over_remove":
            # removal beyond the outstanding count (negative cells): only for state building (C05/C19), no bounds oracle applies
            if self.cls == "hh" or not self.P.get("allow_over_remove"):
                kind, op = "add", ["add", op[1], 1 + op[2] % 3]
            else:
                n = 1 + op[2] % 9
                r = ctx.call(self.noexc, o.remove, k, n)
                self.true[k] -= n
                self.total -= n
                self.last[k] = r
                self.feats.add("over_remove")
                ctx.op("over_remove", op[1] % len(self.pool), n, r)
                return self.verify(f"after over_remove({k!r},{n})")
        if kind == "remove" and (self.cls == "hh" or self.true[k] <= 0):
            kind, op = "add", ["add", op[1], 1 + op[2] % 3]
        self.nops = getattr(self, "nops", 0) + 1
        alt = self.nops % 3 == 0  # every third update goes through the precomputed-hash entry points
        if alt:
            self.feats.add("alt_api")
        if self.cls in ("hh", "st") and self.nops % 7 == 0:
            self._refused()
        if self.cls == "cms" and self.nops % 7 == 0:
            # calls that fail on invalid input (a hash list longer than the sketch is deep, an amount that is no number): which
            # exception is raised is not specified, but the caller carries on - the model ignores the call, all oracles apply as before
            k0 = self.pool[self.nops % len(self.pool)]
            too_long = o.hashes(k0, self.d + 2)
            for fn, args in ((o.add_alt, (too_long, 3)), (o.add_alt, (o.hashes(k0), None)), (o.remove_alt, (too_long, 2)),
                             (o.remove_alt, (o.hashes(k0), None))):
                try:
                    fn(*args)
                    ctx.feat("invalid_call_accepted")
                    self.feats.add("invalid_call_accepted")
                except Exception:  # noqa
                    pass
            if "invalid_call_accepted" not in self.feats:
                self.feats.add("refused_invalid_calls")
                self.verify("after refused add_alt/remove_alt calls (too long a hash list, amount None)")
        if kind == "add":
            n = op[2]
            if self.total + n >= 2 ** 31 - 1:
                n = 1
            if n == 0:
                self.feats.add("add_zero_amount")
            if not alt:
                r = ctx.call(self.noexc, o.add, k, n)
            else:
                hs = o.hashes(k)
                if self.case.get("alt_mode") == "scratch":
                    # the caller's reusable buffer: ONE list object, overwritten for every call
                    if not hasattr(self, "scratch"):
                        self.scratch = []
                    self.scratch[:] = hs
                    hs = self.scratch
                    self.feats.add("alt_list_scratch")
                if self.cls == "cms":
                    r = ctx.call(self.noexc, o.add_alt, hs, n)
                else:
                    r = ctx.call(self.noexc, o.add_alt, k, hs, n)
                if self.case.get("alt_mode") and self._o("bounds"):
                    # the same list object then goes to a second live sketch of ANOTHER width, verified through the key-based API
                    from probables import CountMinSketch
                    if not hasattr(self, "shadow"):
                        self.shadow = CountMinSketch(width=self.w + 1, depth=self.d, hash_function=self.hf)
                        self.shadow_true = Counter()
                    if sum(self.shadow_true.values()) + n < 2 ** 31 - 1:
                        ctx.call(self.noexc, self.shadow.add_alt, hs, n)
                        self.shadow_true[k] += n
                        c2 = ctx.call(self.noexc, self.shadow.check, k)
                        ctx.check(self._o("bounds"), c2 >= self.shadow_true[k],
                                  lambda: f"second live sketch (width {self.w + 1}) fed the SAME hash list after add_alt({k!r},{n}) on the "
                                          f"first: check({k!r}) -> {c2} < {self.shadow_true[k]}")
                        self.feats.add("shared_hash_list_second_sketch")
                if hs is not getattr(self, "scratch", None):
                    hs[:] = [0] * len(hs)  # the list hashes() returned is the caller's to reuse: the sketch must not be holding on to it
            self.true[k] += n
            self.total += n
            self.ever.add(k)
        else:
            n = 1 + op[2] % self.true[k]
            if not alt:
                r = ctx.call(self.noexc, o.remove, k, n)
            elif self.cls == "cms":
                r = ctx.call(self.noexc, o.remove_alt, o.hashes(k), n)
            else:
                r = ctx.call(self.noexc, o.remove_alt, k, o.hashes(k), n)
            self.true[k] -= n
            self.total -= n
            self.feats.add("remove")
            if any(set(self.cells[k]) & set(self.cells[j]) for j in self.ever if j != k):
                self.feats.add("remove_in_colliding_sketch")
        if self.cls == "st" and kind == "add" and r < self.case["threshold"] and k in self.last and self.last[k] >= self.case["threshold"]:
            self.feats.add("st_add_below_threshold_for_listed_key")
        if self.cls == "st" and k in self.last:
            t = self.case["threshold"]
            if self.last[k] < t <= r:
                self.feats.add("st_up_crossing")
            if self.last[k] >= t > r:
                self.feats.add("st_down_crossing")
        self.last[k] = r
        ctx.op(kind, op[1] % len(self.pool), n, r)
        if self._o("retval"):
            c = ctx.call(self.noexc, o.check, k)
            ctx.check(self._o("retval"), r == c, lambda: f"{kind}({k!r},{n}) returned {r} but check says {c}")
        self.verify(f"after {kind}({k!r},{n})")

    def _refused(self):
        """documented refusals: the caller carries on afterwards, nothing may have changed"""
        from probables.exceptions import NotSupportedError
        ctx, o = self.ctx, self.obj
        before = (bytes(o), o.elements_added, dict(o.heavy_hitters) if self.cls == "hh" else dict(o.meets_threshold))
        if self.cls == "hh":
            st_, _ = ctx.lib(self.noexc, o.remove, self.pool[0], 1, allow=(NotSupportedError,))
        else:
            st_ = "exc"
        st2, _ = ctx.lib(self.noexc, o.join, o, allow=(NotSupportedError,))
        # a call that fails on invalid input (hash list longer than the sketch is deep; an amount that is no number) did not
        # return an estimate, so neither the counters nor the table may have changed
        k0 = self.pool[self.nops % len(self.pool)]
        too_long = o.hashes(k0, self.d + 2)
        for fn, args in ((o.add_alt, (k0, too_long, 1)), (o.add_alt, (k0, o.hashes(k0), None))) + \
                (((o.remove_alt, (k0, too_long, 1)), (o.remove_alt, (k0, o.hashes(k0), None))) if self.cls == "st" else ()):
            try:
                fn(*args)
                bad = True
            except Exception:  # noqa - which exception is raised is not specified
                bad = False
            if bad:
                ctx.feat("invalid_call_accepted")
        after = (bytes(o), o.elements_added, dict(o.heavy_hitters) if self.cls == "hh" else dict(o.meets_threshold))
        name = self._o("hh") if self.cls == "hh" else self._o("st")
        if name:
            ctx.check(name, st_ == "exc" and st2 == "exc", "remove on HeavyHitters / join on a tracking sketch was not refused")
            ctx.check(name, before == after, "a refused remove/join changed the sketch or its table")
        self.feats.add("refused_op")

    def _ctor(self):
        from probables import CountMinSketch, HeavyHitters, StreamThreshold
        return {"cms": CountMinSketch, "hh": HeavyHitters, "st": StreamThreshold}[self.cls]

    def _reload(self, ch):
        ctx, o = self.ctx, self.obj
        K = self._ctor()
        extra = {"hh": {"num_hitters": self.case["hitters"]}, "st": {"threshold": self.case["threshold"]}}.get(self.cls, {})
        if ch % 2 == 0:
            raw = bytes(o)
            if ch % 4 == 2:
                raw = memoryview(raw)  # any bytes-like object
                self.feats.add("reload_memoryview")
            new = ctx.call(self.noexc, K.frombytes, raw, hash_function=self.hf, **extra)
        else:
            import os
            p = os.path.join(ctx.tmpdir(), "s.cms")
            ctx.call(self.noexc, o.export, p)
            new = ctx.call(self.noexc, K, filepath=p, hash_function=self.hf, **extra)
        self.obj = new
        self.last.clear()  # tracking tables are not stored in the format
        self.reloaded = True
        self.feats.add("reload")
        ctx.op("reload", ch % 2)
        self.verify("after reload")

    def _join(self, adds):
        from probables import CountMinSketch
        ctx, o = self.ctx, self.obj
        if self.cls != "cms":
            return
        second = CountMinSketch(width=self.w, depth=self.d, hash_function=self.hf)
        tot = 0
        for ki, n in adds:
            if self.total + tot + n >= 2 ** 31 - 1:
                continue
            k = self.pool[ki % len(self.pool)]
            second.add(k, n)
            self.true[k] += n
            self.ever.add(k)
            tot += n
        ctx.call(self.noexc, o.join, second)
        self.total += tot
        self.feats.add("join")
        ctx.op("join", adds)
        self.verify("after join")
        # the argument stays in use: what happens to it afterwards must not reach the receiver (and vice versa)
        sb = bytes(second)
        mine = bytes(o)
        second.add(self.pool[0], 3)
        if self._o("bounds") or self._o("counter"):
            ctx.check(self._o("bounds") or self._o("counter"), bytes(o) == mine, "adding to the ARGUMENT of an earlier join changed the receiver")
        self.feats.add("join_then_argument_modified")
        self.verify("after the join argument was modified")

    def _skip_this_verify(self, force=False):
        """look-ups after EVERY step would refresh whatever the structure remembers from its last query before the next update can
        trip over it: with case["verify_mask"] the comparison with the model runs only at some steps (always at the end)"""
        vm = self.case.get("verify_mask", 0)
        self.nv = getattr(self, "nv", -1) + 1
        if vm and not force and not getattr(self, "_final", False) and not (vm >> (self.nv % 8)) & 1:
            self.feats.add("steps_without_queries")
            return True
        return False

    def verify(self, what):
        ctx, o = self.ctx, self.obj
        if self._skip_this_verify():
            return
        b = self._o("bounds")
        if b or self._o("exact"):
            ea = o.elements_added
            pos = [j for j in self.pool if self.true[j] > 0]
            for k in self.pool:
                c = ctx.call(self.noexc, o.check, k)
                if b:
                    ctx.check(b, ctx.call(self.noexc, o.check_alt, o.hashes(k)) == c, lambda: f"{what}: check_alt(hashes({k!r})) differs from check")
                    ctx.check(b, self.true[k] <= c, lambda: f"{what}: check({k!r}) = {c} below the true count {self.true[k]}")
                    ctx.check(b, c <= ea, lambda: f"{what}: check({k!r}) = {c} above the total {ea}")
                    ctx.check(b, ((k in o) is True) == (c != 0), f"{what}: `in` disagrees with check")
                mine = set(self.cells[k])
                others = [j for j in self.ever if j != k]
                if self._o("exact") and not any(mine & set(self.cells[j]) for j in others):
                    ctx.check(self._o("exact"), c == self.true[k],
                              lambda: f"{what}: key {k!r} shares no counter but check = {c} != true count {self.true[k]}")
                    self.feats.add("exactness_checked")
                # a real constraint: another positive key sits on every one of k's counters
                if self.true[k] > 0 and any(j != k and all(cell in self.cells[j] for cell in self.cells[k]) for j in pos):
                    self.feats.add("full_collision")
        if b or self._o("counter"):
            ctx.check(self._o("counter") or b, o.elements_added == self.total,
                      lambda: f"{what}: elements_added {o.elements_added} != sum of outstanding amounts {self.total}")
        if self._o("hh") and self.cls == "hh":
            self._verify_hh(what)
        if self._o("st") and self.cls == "st":
            self._verify_st(what)

    def _verify_hh(self, what):
        ctx, o, name = self.ctx, self.obj, self._o("hh")
        table = dict(o.heavy_hitters)
        nh = self.case["hitters"]
        seen = list(self.last)
        ctx.check(name, len(table) == min(nh, len(seen)), lambda: f"{what}: {len(table)} tracked, expected min({nh}, {len(seen)} seen)")
        ctx.check(name, o.number_heavy_hitters == nh, "number_heavy_hitters changed")
        for k, v in table.items():
            ctx.check(name, k in self.last and v == self.last[k],
                      lambda: f"{what}: table[{k!r}] = {v} but its most recent add returned {self.last.get(k)}")
        if table and self.qt == "min":
            # (with the mean / mean-min queries an estimate can DROP from one add to the next, so a key refused earlier may now
            # exceed the smallest tracked one without anything being wrong: that clause is judged for the min query only)
            lo = min(table.values())
            for k in seen:
                if k not in table:
                    ctx.check(name, self.last[k] <= lo,
                              lambda: f"{what}: untracked {k!r} last estimate {self.last[k]} exceeds smallest tracked {lo}: {table}")
        if len(seen) > nh:
            self.feats.add("hh_more_keys_than_slots")

    def _verify_st(self, what):
        ctx, o, name = self.ctx, self.obj, self._o("st")
        t = self.case["threshold"]
        want = {k: v for k, v in self.last.items() if v >= t}
        got = dict(o.meets_threshold)
        ctx.check(name, got == want, lambda: f"{what}: meets_threshold {got} != keys whose latest estimate >= {t}: {want}")
        ctx.check(name, o.threshold == t, "threshold changed")
        for k in self.pool:
            if self.true[k] >= t and self.qt == "min" and not getattr(self, "reloaded", False):
                ctx.check(name, k in got, lambda: f"{what}: {k!r} has true count {self.true[k]} >= {t} but is not listed")

    def run(self):
        prev_tables = None
        self.verify("fresh")
        for op in self.case["ops"]:
            if self.cls == "hh":
                prev_tables = set(self.obj.heavy_hitters)
            self.step(op)
            if self.cls == "hh" and prev_tables - set(self.obj.heavy_hitters) and op[0] != "clear":
                self.feats.add("hh_replacement")
        self._final = True
        self.verify("at the end of the history")
        for f in self.feats:
            self.ctx.feat(f)
        self.ctx.feat("cls_" + self.cls)
        if self.qt != "min":
            self.ctx.feat("st_query_" + self.qt)
        self.ctx.feat("w=%s" % (self.w if self.w < 4 else "4-8" if self.w < 9 else "9+"))
        self.ctx.feat("d=%d" % min(self.d, 6))


def case_strategy(tier, classes=("cms",), allow_clear=False, max_ops=40, small=False, extra_ops=False, over_remove=False):
    from hypothesis import strategies as st

    from .. import gen

    ki = st.integers(0, 11)
    # an amount of 0 is a valid call too: nothing is counted, but the call returns the key's estimate like any other add
    amt = st.one_of(st.integers(1, 5), st.integers(1, 5), st.integers(1, 3), st.integers(1, 2 ** 20), st.sampled_from([0, 0, 1, 7]))
    if small:
        amt = st.one_of(st.integers(1, 4), st.integers(1, 4), st.integers(0, 4))

    @st.composite
    def case(draw):
        cls = draw(st.sampled_from(classes))
        c = {"cls": cls, "hash": draw(gen.hash_name_st()), "pool": draw(gen.pool_st(2, 9 if small else 8)),
             "qt": draw(st.sampled_from(["min", "min", "mean", "mean-min"])),
             "hitters": draw(st.integers(1, 4)), "threshold": draw(st.integers(1, 8))}
        if not small and draw(st.integers(0, 7)) == 0:
            c["conf"] = draw(st.sampled_from([0.5, 0.75, 0.9, 0.99]))
            c["err"] = draw(st.sampled_from([0.5, 0.25, 0.1, 0.01, 0.001, 0.0001]))  # (0.0001: 20000 columns - arrays beyond 64 Ki cells)
        else:
            c["w"] = draw(st.one_of(st.integers(1, 3), st.integers(1, 3), st.integers(1, 4 if small else 8),
                                    st.integers(1, 4 if small else 64)))
            c["d"] = draw(st.integers(1, 3 if small else 5))
        ops = [st.tuples(st.just("add"), ki, amt), st.tuples(st.just("add"), ki, amt),
               st.tuples(st.just("remove"), ki, st.integers(0, 1000))]
        if allow_clear:
            ops.append(st.tuples(st.just("clear")))
        if over_remove:
            ops.append(st.tuples(st.just("over_remove"), ki, st.integers(0, 1000)))
        if extra_ops:
            ops.append(st.tuples(st.just("reload"), st.integers(0, 3)))
            ops.append(st.tuples(st.just("join"), st.lists(st.tuples(ki, st.integers(1, 5)), max_size=4)))
        c["ops"] = [list(o) for o in draw(st.lists(st.one_of(*ops), min_size=3, max_size=max_ops))]
        c["alt_mode"] = draw(st.sampled_from(["", "", "scratch", "shared"]))
        c["verify_mask"] = draw(st.one_of(st.just(0), st.just(0), st.integers(1, 255)))
        return c

    return case()
