"""Driver for the set-like Bloom filters: BloomFilter, BloomFilterOnDisk, ExpandingBloomFilter.

A case is
  {"kind": "bloom"|"ondisk"|"expanding", "est": n, "fpr": p, "hash": name, "pool": [encoded keys],
   "ops": [[op, ...], ...]}
with ops
  ["add", ki] ["addf", ki] (expanding: force) ["push"] ["clear"] ["reload", channel] ["reopen"]
  ["union", [ki...], other_kind, swapped]
Indices are taken modulo what is legal, ops that do not apply to the current kind are re-mapped, so
every generated list is a valid history (no rejection).

P maps logical oracles to oracle names (or None = not asserted):
  member   every key added since the last clear answers present (check and `in`)
  bits     the bit array only gains bits outside clear(); a union is a superset of both operands
  counter  elements_added equals the documented quantity after every step
  stats    estimate_elements / current_false_positive_rate follow the standard formulas
"""
import io
import math
import os

from ..gen import dk, hash_by_name

CHANNELS = {
    "bloom": ["bytes", "file", "fileobj", "hex", "to_disk", "pathobj"],
    "ondisk": ["reopen", "export", "to_memory", "hex", "bytes"],
    "expanding": ["bytes", "file", "fileobj"],
}


class BloomDriver:
    def __init__(self, case, ctx, P):
        from probables import BloomFilter, BloomFilterOnDisk, ExpandingBloomFilter

        self.B, self.D, self.E = BloomFilter, BloomFilterOnDisk, ExpandingBloomFilter
        self.case, self.ctx, self.P = case, ctx, P
        self.kind = case["kind"]
        self.est, self.fpr = case["est"], case["fpr"]
        self.hname = case["hash"]
        self.hf = hash_by_name(self.hname)
        self.pool = [dk(k) for k in case["pool"]]
        self.keys = []  # keys added since last clear (model)
        self.count = 0  # documented value of elements_added
        self.count_exact = True  # False after a union (value is then an estimate, pinned when it happens)
        self.dir = None
        self.fileno = 0
        self.path = None
        self.obj = None
        self.events = set()
        self.growths = 0
        self.nops = 0
        self._nh = None
        self.ok = self._create()

    # ------------------------------------------------------------------------------------
    def _o(self, name):
        return self.P.get(name)

    def _newpath(self):
        if self.dir is None:
            self.dir = self.ctx.tmpdir()
            os.chdir(self.dir)
        self.fileno += 1
        return "f%d.blm" % self.fileno  # relative name, cwd is the scratch dir

    def _create(self):
        try:
            if self.kind == "bloom":
                self.obj = self.B(self.est, self.fpr, hash_function=self.hf)
            elif self.kind == "ondisk":
                self.path = self._newpath()
                self.obj = self.D(self.path, self.est, self.fpr, hash_function=self.hf)
            else:
                self.obj = self.E(self.est, self.fpr, hash_function=self.hf)
        except Exception as e:  # noqa - rejected parameters are counted, not judged
            from ..core import innermost_is_library
            if not innermost_is_library(e):
                raise
            self.ctx.feat("rejected_params_" + type(e).__name__)
            return False
        return True

    def _hashes(self, key):
        """hashes for the *_alt entry points of the expanding filter (which has no hashes() method of its own)"""
        from probables.hashes import default_fnv_1a
        if self._nh is None:
            self._nh = self.B(self.est, self.fpr).number_hashes
        return (self.hf if self.hf is not None else default_fnv_1a)(key, self._nh)

    def close(self):
        if self.kind == "ondisk" and self.obj is not None:
            try:
                self.obj.close()
            except Exception:  # noqa
                pass

    # ------------------------------------------------------------------------------------
    def bits(self, obj=None, kind=None):
        obj = self.obj if obj is None else obj
        kind = self.kind if kind is None else kind
        if kind == "expanding":
            return None
        return bytes(bytearray(obj.bloom[: obj.bloom_length]))

    def _skip_this_verify(self, force=False):
        """look-ups after EVERY step would refresh whatever the structure remembers from its last query before the next update can
        trip over it: with case["verify_mask"] the comparison with the model runs only at some steps (always at the end)"""
        vm = self.case.get("verify_mask", 0)
        self.nv = getattr(self, "nv", -1) + 1
        if vm and not force and not getattr(self, "_final", False) and not (vm >> (self.nv % 8)) & 1:
            self.events.add("steps_without_queries")
            return True
        return False

    def verify(self, what):
        ctx, o = self.ctx, self.obj
        if self._skip_this_verify(force=getattr(self, "force_stats", False)):
            return
        if self._o("member"):
            for k in self.keys:
                r = ctx.call(self._o("member"), o.check, k)
                ctx.check(self._o("member"), r is True, lambda: f"{what}: check({k!r}) -> {r!r} for an added key")
                ctx.check(self._o("member"), (k in o) is True, lambda: f"{what}: {k!r} in filter is False")
                hs = self._hashes(k) if self.kind == "expanding" else o.hashes(k)
                ctx.check(self._o("member"), ctx.call(self._o("member"), o.check_alt, hs) is True,
                          lambda: f"{what}: check_alt(hashes({k!r})) is not True for an added key")
                # a hash list computed for a larger depth starts with the same values (prefix stability, C18): still present
                from probables.hashes import default_fnv_1a
                longer = (self.hf if self.hf is not None else default_fnv_1a)(k, len(hs) + 3)
                if longer[: len(hs)] == hs:
                    ctx.check(self._o("member"), ctx.call(self._o("member"), o.check_alt, longer) is True,
                              lambda: f"{what}: check_alt(hashes({k!r}, depth={len(hs) + 3})) is not True for an added key")
        if self._o("counter"):
            ea = o.elements_added
            ctx.check(self._o("counter"), ea == self.count,
                      lambda: f"{what}: {self.kind} elements_added {ea} != documented value {self.count}")
        # the statistics are queried after every step, or (case["stat_mask"]) only at some steps of the history: a value the library
        # remembered at the previous query must still be right when several updates happened in between
        self.nverify = getattr(self, "nverify", -1) + 1
        mask = self.case.get("stat_mask", 0)
        force, self.force_stats = getattr(self, "force_stats", False), False
        if mask and not force and not (mask >> (self.nverify % 8)) & 1:
            self.events.add("stats_query_skipped_for_some_steps")
        elif self._o("stats") and self.kind != "expanding":
            if not hasattr(self, "qcounts"):
                self.qcounts = []
            if self.count in self.qcounts:
                self.qcounts.remove(self.count)
            self.qcounts.append(self.count)  # most recently queried last
            m, k = o.number_bits, o.number_hashes
            raw = self.bits()
            X = sum(bin(b).count("1") for b in raw)
            if X < m:
                want = -(m / k) * math.log(1 - X / m)
                got = ctx.call(self._o("stats"), o.estimate_elements)
                ctx.check(self._o("stats"), abs(got - want) <= 1.0 + 1e-9 * abs(want),
                          lambda: f"{what}: estimate_elements {got} vs -(m/k)ln(1-X/m) = {want!r} (m={m},k={k},X={X})")
            n = o.elements_added
            want = (1 - math.exp(-k * n / m)) ** k
            got = ctx.call(self._o("stats"), o.current_false_positive_rate)
            ctx.check(self._o("stats"), abs(got - want) <= 1e-9 * max(want, 1e-300) + 1e-300,
                      lambda: f"{what}: current_false_positive_rate {got!r} vs (1-e^(-kn/m))^k = {want!r}")

    # ------------------------------------------------------------------------------------
    def step(self, op):
        ctx, o = self.ctx, self.obj
        kind = op[0]
        anyo = self._o("noexc") or (ctx.prop + ".no_exception")
        before = self.bits()
        if kind in ("add", "addf"):
            k = self.pool[op[1] % len(self.pool)]
            force = kind == "addf" and self.kind == "expanding"
            self.nops += 1
            alt = self.nops % 3 == 0  # every third insertion goes through the precomputed-hash entry point
            if self.kind != "expanding" and self.nops % 4 == 1:
                # a read-only hashes() call for ANOTHER depth right before the key is added (a caller sizing a second, deeper
                # filter): whatever the filter remembers of it must not leak into the add
                ctx.call(anyo, o.hashes, k, o.number_hashes + 1 + self.nops % 3)
                self.events.add("hashes_other_depth_before_add")
            if self.kind == "expanding":
                exp_before = o.expansions
                if alt:
                    ctx.call(anyo, o.add_alt, self._hashes(k), force)
                else:
                    ctx.call(anyo, o.add, k, force)
                if o.expansions > exp_before:
                    self.growths += 1
                    self.events.add("growth")
            elif alt:
                hs = ctx.call(anyo, o.hashes, k)
                if self.nops % 2 == 1 and len(self.pool) > 1:
                    # a caller hashing a batch first and inserting afterwards: the list of ANOTHER key is computed (and kept alive)
                    # between hashes(k) and add_alt: the earlier result is still the caller's and still k's
                    self._held = ctx.call(anyo, o.hashes, self.pool[(op[1] + 1) % len(self.pool)])
                    self.events.add("other_key_hashed_before_add_alt")
                if self.nops % 2 == 0:
                    longer = ctx.call(anyo, o.hashes, k, len(hs) + 2)
                    if longer[: len(hs)] == hs:  # a list computed for a larger depth: only the leading number_hashes entries may matter
                        hs = longer
                if self.case.get("alt_mode") == "scratch":
                    # the caller's reusable buffer: ONE list object, overwritten for every call
                    if not hasattr(self, "scratch"):
                        self.scratch = []
                    self.scratch[:] = hs
                    hs = self.scratch
                    self.events.add("alt_list_scratch")
                ctx.call(anyo, o.add_alt, hs)
                if self.case.get("alt_mode") and self._o("member"):
                    # the same list object then goes to a second live filter of ANOTHER size (a caller indexing one key into several
                    # filters hashes it once); that filter is verified through the key-based API
                    if not hasattr(self, "shadow"):
                        try:
                            self.shadow = self.B(self.est + 7, self.fpr, hash_function=self.hf)
                        except Exception:  # noqa  parameters the library refuses for the other size: no second filter in this case
                            self.shadow = None
                    # (the other size may need one hash more; a depth-dependent strategy's list is that key only at its own depth)
                    if self.shadow is not None and len(hs) >= self.shadow.number_hashes and \
                            (self.case["hash"] != "depthdep" or len(hs) == self.shadow.number_hashes == o.number_hashes):
                        ctx.call(anyo, self.shadow.add_alt, hs)
                        r = ctx.call(anyo, self.shadow.check, k)
                        ctx.check(self._o("member"), r is True, lambda: f"second live filter (est {self.est + 7}) fed the SAME hash list after "
                                                                        f"add_alt({k!r}) on the first: check({k!r}) -> {r!r}")
                        self.events.add("shared_hash_list_second_filter")
                if hs is not getattr(self, "scratch", None):
                    hs[:] = [0] * len(hs)  # the list hashes() returned is the caller's to reuse: the filter must not be holding on to it
            else:
                ctx.call(anyo, o.add, k)
            if alt:
                self.events.add("alt_api")
            self.keys.append(k)
            self.count += 1
            ctx.op("add", op[1] % len(self.pool), force)
        elif kind == "setcount":
            # elements_added is documented as settable: from here on the documented value is what was assigned (+ later adds)
            if self.kind == "expanding":
                return self.step(["add", op[1]])
            v = op[1] % 50 if op[1] % 5 else 0  # 0 often: "nothing was added" according to the counter while cells are set
            qc = [c for c in getattr(self, "qcounts", []) if c != self.count]
            if op[1] % 2 and qc:
                # rewind: the counter returns to a value it had at an EARLIER statistics query while the bits are those of now
                # (mostly the most recent one: a single remembered value is keyed on it)
                v = qc[-1] if (op[1] // 2) % 4 else qc[(op[1] // 8) % len(qc)]
                self.events.add("setcount_rewind")
            def assign():
                o.elements_added = v
            ctx.call(anyo, assign)
            self.count = v
            self.events.add("setcount")
            ctx.op("setcount", v)
            if self.kind == "ondisk" and op[1] % 3 == 1 and v >= 0:
                # the assigned value is the last thing that happens before the filter is closed: it must be what the file records
                self._reload("reopen", anyo)
                self.events.add("reopen_right_after_setcount")
                ctx.op("reopen")
        elif kind == "rewind":
            # statistics are queried, several keys are added with NO query in between, the (documented settable) element counter is
            # assigned the value it had at the query, and the statistics are queried again: they must describe the bits of now
            if self.kind == "expanding":
                return self.step(["add", op[1]])
            self.force_stats = True
            self.verify(f"before {op}")
            c = self.count
            n = 3 + op[1] % 6
            for i in range(n):
                k = "rw-%d-%d" % (len(self.keys), i)
                ctx.call(anyo, o.add, k)
                self.keys.append(k)
            def assign_c():
                o.elements_added = c
            ctx.call(anyo, assign_c)
            self.count = c
            self.force_stats = True
            self.events.add("setcount_rewind_after_unqueried_adds")
            ctx.op("rewind", n, c)
        elif kind == "bulk":
            n = 5 + op[1] % 40
            for i in range(n):
                k = "bulk-%d-%d" % (len(self.keys), i)
                ctx.call(anyo, o.add, k)
                self.keys.append(k)
                self.count += 1
            self.events.add("bulk")
            ctx.op("bulk", n)
        elif kind == "push":
            if self.kind != "expanding":
                return self.step(["add", op[1] if len(op) > 1 else 0])
            ctx.call(anyo, o.push)
            self.events.add("push")
            ctx.op("push")
        elif kind == "clear":
            if self.kind == "expanding":
                return self.step(["push"])
            ctx.call(anyo, o.clear)
            self.keys = []
            self.count = 0
            self.events.add("clear")
            before = None
            ctx.op("clear")
        elif kind in ("reload", "reopen") and self.kind != "expanding" and o.elements_added < 0:
            # union of saturated operands: elements_added is the documented -1 "all bits set" sentinel of
            # estimate_elements(), which the export format cannot represent (finding KF-SATURATED-SETOP, C05);
            # exporting such a filter is outside this driver's domain
            ctx.feat("skipped_export_of_saturated_union")
            return self.step(["add", op[1] if len(op) > 1 else 0])
        elif kind == "reload":
            chans = CHANNELS[self.kind]
            ch = chans[op[1] % len(chans)]
            self._reload(ch, anyo)
            if self.keys:
                self.events.add("reload_after_add")
            ctx.feat("channel_" + ch)
            ctx.op("reload", ch)
        elif kind == "reopen":
            if self.kind != "ondisk":
                return self.step(["reload", op[1] if len(op) > 1 else 0])
            self._reload("reopen", anyo)
            if self.keys:
                self.events.add("reopen_after_add")
            ctx.feat("channel_reopen")
            ctx.op("reopen")
        elif kind == "union":
            if self.kind == "expanding":
                return self.step(["add", (op[1] or [0])[0]])
            self._union(op, anyo)
        else:
            raise ValueError(op)
        if self._o("bits") and before is not None and self.kind != "expanding":
            after = self.bits()
            ctx.check(self._o("bits"), len(after) == len(before) and all(a & b == b for a, b in zip(after, before)),
                      f"after {op}: a bit that was set disappeared")
        self.verify(f"after {op}")

    def _reload(self, ch, anyo):
        ctx, o = self.ctx, self.obj
        hf = self.hf
        if self.kind == "expanding":
            if ch == "bytes":
                new = ctx.call(anyo, self.E.frombytes, bytes(o), hf)
            elif ch == "file":
                p = self._newpath()
                ctx.call(anyo, o.export, p)
                new = ctx.call(anyo, self.E, filepath=p, hash_function=hf)
            else:
                buf = io.BytesIO()
                ctx.call(anyo, o.export, buf)
                new = ctx.call(anyo, self.E.frombytes, buf.getvalue(), hf)
            self.obj = new
            return
        if self.kind == "bloom":
            if ch == "bytes":
                new = ctx.call(anyo, self.B.frombytes, bytes(o), hf)
            elif ch in ("file", "pathobj"):
                p = self._newpath()
                if ch == "pathobj":
                    from pathlib import Path
                    ctx.call(anyo, o.export, Path(p))
                    new = ctx.call(anyo, self.B, filepath=Path(p), hash_function=hf)
                else:
                    ctx.call(anyo, o.export, p)
                    new = ctx.call(anyo, self.B, filepath=p, hash_function=hf)
            elif ch == "fileobj":
                p = self._newpath()
                with open(p, "wb") as fh:
                    ctx.call(anyo, o.export, fh)
                new = ctx.call(anyo, self.B, filepath=p, hash_function=hf)
            elif ch == "hex":
                new = ctx.call(anyo, self.B, hex_string=o.export_hex(), hash_function=hf)
            else:  # to_disk
                p = self._newpath()
                ctx.call(anyo, o.export, p)
                new = ctx.call(anyo, self.D, p, hash_function=hf)
                self.kind, self.path = "ondisk", p
            self.obj = new
            return
        # on disk
        if ch == "reopen":
            ctx.call(anyo, o.close)
            self.obj = ctx.call(anyo, self.D, self.path, hash_function=hf)
        elif ch == "export":
            p = self._newpath()
            ctx.call(anyo, o.export, p)
            ctx.call(anyo, o.close)
            self.obj = ctx.call(anyo, self.D, p, hash_function=hf)
            self.path = p
        elif ch == "to_memory":
            ctx.call(anyo, o.close)
            self.obj = ctx.call(anyo, self.B, filepath=self.path, hash_function=hf)
            self.kind = "bloom"
        elif ch == "hex":
            hx = ctx.call(anyo, o.export_hex)
            ctx.call(anyo, o.close)
            self.obj = ctx.call(anyo, self.B, hex_string=hx, hash_function=hf)
            self.kind = "bloom"
        else:  # bytes of the backing file
            raw = ctx.call(anyo, bytes, o)
            ctx.call(anyo, o.close)
            self.obj = ctx.call(anyo, self.B.frombytes, raw, hf)
            self.kind = "bloom"

    def _union(self, op, anyo):
        ctx, o = self.ctx, self.obj
        idxs, okind, swapped = op[1], op[2], op[3]
        if okind == "ondisk":
            p = self._newpath()
            other = self.D(p, self.est, self.fpr, hash_function=self.hf)
        else:
            other = self.B(self.est, self.fpr, hash_function=self.hf)
        okeys = [self.pool[i % len(self.pool)] for i in idxs]
        for k in okeys:
            other.add(k)
        a_bits, b_bits = self.bits(), self.bits(other, okind)
        res = ctx.call(anyo, other.union, o) if swapped else ctx.call(anyo, o.union, other)
        ctx.check(anyo, res is not None, "union of two filters with identical geometry and hash returned None")
        if okind == "ondisk":
            other.close()
        self.close()
        self.obj, self.kind = res, "bloom"
        r_bits = self.bits()
        if self._o("bits"):
            ctx.check(self._o("bits"), all((r & a) == a and (r & b) == b for r, a, b in zip(r_bits, a_bits, b_bits)),
                      "union lost a bit of an operand")
        self.keys = self.keys + okeys
        if self._o("counter") or self._o("stats"):
            m, k = res.number_bits, res.number_hashes
            X = sum(bin(b).count("1") for b in r_bits)
            ea = res.elements_added
            if X < m and self._o("stats"):
                want = -(m / k) * math.log(1 - X / m)
                ctx.check(self._o("stats"), abs(ea - want) <= 1.0 + 1e-9 * abs(want),
                          lambda: f"union: elements_added {ea} is not the estimate {want!r}")
            self.count = ea  # documented: the estimate becomes the element count; later adds count from it
        self.events.add("union_after_add" if (self.keys and idxs) else "union")
        ctx.feat("union_%s_%s" % (okind, "swapped" if swapped else "recv"))
        ctx.op("union", [i % len(self.pool) for i in idxs], okind, swapped)

    def run(self):
        if not self.ok:
            return False
        try:
            self.verify("fresh")
            for op in self.case["ops"]:
                self.step(op)
            self._final = True
            self.verify("at the end of the history")
        finally:
            pass
        o = self.obj
        if self.kind != "expanding":
            self.ctx.feat("m%%8=%d" % (o.number_bits % 8))
            k = o.number_hashes
            self.ctx.feat("k=%s" % (k if k < 4 else "4-9" if k < 10 else "10-49" if k < 50 else "50+"))
        self.ctx.feat("hash_" + self.hname)
        self.ctx.feat("kind_" + self.case["kind"])
        for e in self.events:
            self.ctx.feat("ev_" + e)
        return True


def case_strategy(tier, kinds=("bloom", "ondisk", "expanding"), hashes=None, max_ops=40, big=300):
    from hypothesis import strategies as st

    from .. import gen

    idx = st.integers(0, 15)

    @st.composite
    def case(draw):
        kind = draw(st.sampled_from(kinds))
        if kind == "expanding":
            est = draw(st.one_of(st.integers(1, 4), st.integers(1, 12)))
            fpr = draw(st.sampled_from([0.05, 0.01, 0.5, 0.2, 0.001, 0.3]))
        else:
            est, fpr = draw(gen.bloom_geom_st(big=big))
        op = st.one_of(
            st.tuples(st.just("add"), idx), st.tuples(st.just("add"), idx), st.tuples(st.just("add"), idx),
            st.tuples(st.just("addf"), idx), st.tuples(st.just("bulk"), st.integers(0, 39)), st.tuples(st.just("setcount"), st.integers(0, 49)),
            st.tuples(st.just("rewind"), st.integers(0, 49)),
            st.tuples(st.just("push"), idx),
            st.tuples(st.just("clear")),
            st.tuples(st.just("reload"), st.integers(0, 5)),
            st.tuples(st.just("reopen"), st.integers(0, 5)),
            st.tuples(st.just("union"), st.lists(idx, max_size=5), st.sampled_from(["bloom", "ondisk"]), st.booleans()),
        )
        ops = draw(st.lists(op, min_size=3, max_size=max_ops))
        return {"kind": kind, "est": est, "fpr": fpr, "hash": draw(gen.hash_name_st(hashes)),
                "pool": draw(gen.pool_st(2, 10)), "ops": [list(o) for o in ops],
                "stat_mask": draw(st.one_of(st.just(0), st.integers(1, 255))),
                "alt_mode": draw(st.sampled_from(["", "", "scratch", "shared"])),
                "verify_mask": draw(st.one_of(st.just(0), st.just(0), st.integers(1, 255)))}

    return case()
