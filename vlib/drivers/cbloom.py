"""Driver for CountingBloomFilter add/remove histories (C08, C14).

Case: {"est": n, "fpr": p, "hash": name, "pool": [keys], "ops": [["add", ki, n], ["remove", ki, tape], ["reload", ch]]}
A remove is resolved to 1 + tape % outstanding(key); when nothing is outstanding for the key it becomes either a
remove of a key the filter reports absent (if check(key) == 0; must return 0 and change nothing) or an add.

P: lower   check(k) >= true[k] for every pool key after every step
   undo    whenever the model multiset returns to an earlier value, bytes() equals the bytes recorded then
   absent  removing a key reported absent returns 0 and changes nothing
   counter elements_added == net amount (C14)
"""
from collections import Counter

from ..gen import dk, hash_by_name


class CBloomDriver:
    def __init__(self, case, ctx, P):
        from probables import CountingBloomFilter

        self.K = CountingBloomFilter
        self.case, self.ctx, self.P = case, ctx, P
        self.hf = hash_by_name(case["hash"])
        self.pool = [dk(k) for k in case["pool"]]
        self.noexc = ctx.prop + ".no_exception"
        self.feats = set()
        self.true = Counter()
        self.ok = True
        try:
            self.obj = self.K(case["est"], case["fpr"], hash_function=self.hf)
        except Exception as e:  # noqa
            from ..core import innermost_is_library
            if not innermost_is_library(e):
                raise
            ctx.feat("rejected_params_" + type(e).__name__)
            self.ok = False
            return
        m, k = self.obj.number_bits, self.obj.number_hashes
        self.cells = {key: [h % m for h in self.obj.hashes(key)[:k]] for key in self.pool}
        self.seen = {self._mkey(): bytes(self.obj)}

    def _alt_hashes(self, k):
        """hash list for add_alt / remove_alt: every other time computed for a LARGER depth (same leading values by prefix
        stability) - only the first number_hashes entries may matter"""
        o = self.obj
        hs = o.hashes(k)
        if self.nops % 2 == 0:
            longer = o.hashes(k, len(hs) + 2)
            if longer[: len(hs)] == hs:
                self.feats.add("alt_api_longer_list")
                return longer
        return hs

    def _mkey(self):
        return tuple(sorted((repr(k), v) for k, v in self.true.items() if v))

    def _o(self, n):
        return self.P.get(n)

    def step(self, op):
        ctx, o = self.ctx, self.obj
        kind = op[0]
        if kind == "reload":
            raw = bytes(o)
            ch = op[1] % 3
            if ch == 0:
                self.obj = ctx.call(self.noexc, self.K.frombytes, raw, self.hf)
            elif ch == 1:
                self.obj = ctx.call(self.noexc, self.K, hex_string=o.export_hex(), hash_function=self.hf)
            else:
                import os
                p = os.path.join(ctx.tmpdir(), "c.cbm")
                ctx.call(self.noexc, o.export, p)
                self.obj = ctx.call(self.noexc, self.K, filepath=p, hash_function=self.hf)
            self.feats.add("reload")
            ctx.op("reload", ch)
            return self.verify(f"after {op}")
        if kind == "stat":
            # statistics queried at IRREGULAR points of the history (not after every step), so a memoised value would show
            st_ = self._o("stats")
            if st_:
                import math
                import struct
                m, kk = o.number_bits, o.number_hashes
                raw = bytes(o)
                X = sum(1 for c in struct.unpack("%dI" % m, raw[: 4 * m]) if c)
                got = ctx.call(self.noexc, o.estimate_elements)
                if X < m:
                    want = -(m / kk) * math.log(1 - X / m)
                    ctx.check(st_, abs(got - want) <= 1.0 + 1e-9 * abs(want),
                              lambda: f"counting Bloom estimate_elements {got} vs -(m/k)ln(1-X/m) = {want!r} (m={m},k={kk},X={X})")
                n = o.elements_added
                want = (1 - math.exp(-kk * n / m)) ** kk
                got = ctx.call(self.noexc, o.current_false_positive_rate)
                ctx.check(st_, abs(got - want) <= 1e-9 * max(want, 1e-300) + 1e-300, lambda: f"counting Bloom current_false_positive_rate {got!r} vs {want!r}")
                self.feats.add("stat")
            ctx.op("stat")
            return
        if kind == "clear":
            ctx.call(self.noexc, o.clear)
            self.true.clear()
            self.product = False
            self.count = 0
            self.seen = {}
            self.feats.add("clear")
            ctx.op("clear")
            if self._o("undo"):
                fresh = self.K(self.case["est"], self.case["fpr"], hash_function=self.hf)
                ctx.check(self._o("undo"), bytes(o) == bytes(fresh), "after clear() the exported bytes differ from those of a fresh filter")
            self.seen[self._mkey()] = bytes(o)
            return self.verify(f"after {op}")
        if kind == "union":
            # the filter is replaced by its union with a second filter built from generated adds: a PRODUCT, whose element count is
            # the distinct-element estimate while its cells hold the operands' sums
            second = self.K(self.case["est"], self.case["fpr"], hash_function=self.hf)
            for ki2, n2 in op[1]:
                k2 = self.pool[ki2 % len(self.pool)]
                second.add(k2, n2)
                self.true[k2] += n2
            res = ctx.call(self.noexc, o.union, second)
            ctx.check(self.noexc, res is not None, "union of same-geometry counting filters returned None")
            if res.elements_added < 0:
                # every cell set: the product carries the -1 sentinel and cannot be exported (open finding KF_SATURATED_SETOP, C05);
                # the history continues with the un-united filter
                for ki2, n2 in op[1]:
                    self.true[self.pool[ki2 % len(self.pool)]] -= n2
                ctx.exclude("KF_SATURATED_SETOP")
                return
            self.obj = res
            self.product = True
            self.count = res.elements_added
            self.seen = {}
            self.feats.add("union_product")
            ctx.op("union", op[1], self.count)
            return self.verify(f"after {op}")
        if kind == "swap":
            # stat; move the whole outstanding amount of one key to another key (net total unchanged, different cells); stat again
            src = [k for k in self.pool if self.true[k] > 0]
            if not src:
                return self.step(["add", op[1], 1 + op[2] % 3])
            a = src[op[1] % len(src)]
            b = self.pool[op[2] % len(self.pool)]
            self.step(["stat"])
            n = self.true[a]
            ctx.call(self.noexc, o.remove, a, n)
            self.true[a] -= n
            ctx.call(self.noexc, o.add, b, n)
            self.true[b] += n
            self.feats.add("swap_same_total")
            ctx.op("swap", repr(a), repr(b), n)
            self.step(["stat"])
            return self.verify(f"after {op}")
        ki = op[1] % len(self.pool)
        k = self.pool[ki]
        if kind == "remove" and self.true[k] <= 0:
            if ctx.call(self.noexc, o.check, k) == 0:
                before = bytes(o)
                r = ctx.call(self.noexc, o.remove, k, 1 + op[2] % 3)
                a = self._o("absent")
                if a:
                    ctx.check(a, r == 0, lambda: f"remove({k!r}) of a key reported absent returned {r!r}")
                    ctx.check(a, bytes(o) == before, f"remove({k!r}) of a key reported absent changed the filter")
                self.feats.add("remove_absent")
                ctx.op("remove_absent", ki)
                return self.verify(f"after {op}")
            kind, op = "add", ["add", op[1], 1 + op[2] % 3]
        self.nops = getattr(self, "nops", 0) + 1
        alt = self.nops % 3 == 0
        if alt:
            self.feats.add("alt_api")
        if kind == "add":
            n = op[2]
            if self.nops % 4 == 1:
                # a read-only hashes() call for another depth right before the add of the same key
                ctx.call(self.noexc, o.hashes, k, o.number_hashes + 1 + self.nops % 3)
                self.feats.add("hashes_other_depth_before_add")
            if alt:
                hs = self._alt_hashes(k)
                if self.case.get("alt_mode") == "scratch":
                    # the caller's reusable buffer: ONE list object, overwritten for every call
                    if not hasattr(self, "scratch"):
                        self.scratch = []
                    self.scratch[:] = hs
                    hs = self.scratch
                    self.feats.add("alt_list_scratch")
                ctx.call(self.noexc, o.add_alt, hs, n)
                if self.case.get("alt_mode") and self._o("lower"):
                    # the same list object then goes to a second live filter of ANOTHER size, verified through the key-based API
                    if not hasattr(self, "shadow"):
                        try:
                            self.shadow = self.K(self.case["est"] + 7, self.case["fpr"], hash_function=self.hf)
                        except Exception:  # noqa  parameters the library refuses for the other size: no second filter in this case
                            self.shadow = None
                        self.shadow_true = Counter()
                    if self.shadow is not None and len(hs) >= self.shadow.number_hashes and self.shadow_true[k] + n < 2 ** 31 and \
                            (self.case["hash"] != "depthdep" or len(hs) == self.shadow.number_hashes == o.number_hashes):
                        ctx.call(self.noexc, self.shadow.add_alt, hs, n)
                        self.shadow_true[k] += n
                        r = ctx.call(self.noexc, self.shadow.check, k)
                        ctx.check(self._o("lower"), r >= self.shadow_true[k],
                                  lambda: f"second live filter (est {self.case['est'] + 7}) fed the SAME hash list after add_alt({k!r},{n}) on "
                                          f"the first: check({k!r}) -> {r} < {self.shadow_true[k]}")
                        self.feats.add("shared_hash_list_second_filter")
                if hs is not getattr(self, "scratch", None):
                    hs[:] = [0] * len(hs)  # the list hashes() returned is the caller's to reuse: the filter must not be holding on to it
            else:
                ctx.call(self.noexc, o.add, k, n)
            self.true[k] += n
            if getattr(self, "product", False):
                self.count += n
            ctx.op("add", ki, n)
        else:
            n = 1 + op[2] % self.true[k]
            if getattr(self, "product", False) and o.elements_added - n < 0:
                # open finding KF_SETOP_PRODUCT_NEGATIVE_COUNT (C05): a legitimate removal from a union product beyond its ESTIMATED
                # count drives elements_added negative, after which the filter cannot be exported. Excluded by construction.
                ctx.exclude("KF_SETOP_PRODUCT_NEGATIVE_COUNT")
                n = o.elements_added
                if n <= 0:
                    return self.step(["add", op[1], 1 + op[2] % 3])
            shared = any(j != k and self.true[j] > 0 and set(self.cells[j]) & set(self.cells[k]) for j in self.pool)
            if alt:
                ctx.call(self.noexc, o.remove_alt, self._alt_hashes(k), n)
            else:
                ctx.call(self.noexc, o.remove, k, n)
            self.true[k] -= n
            if getattr(self, "product", False):
                self.count -= n
            self.feats.add("remove")
            if shared:
                self.feats.add("remove_with_shared_cell")
            if len(set(self.cells[k])) < len(self.cells[k]):
                self.feats.add("remove_key_with_coinciding_positions")
            ctx.op("remove", ki, n)
        self.verify(f"after {op}")

    def _skip_this_verify(self, force=False):
        """look-ups after EVERY step would refresh whatever the structure remembers from its last query before the next update can
        trip over it: with case["verify_mask"] the comparison with the model runs only at some steps (always at the end)"""
        vm = self.case.get("verify_mask", 0)
        self.nv = getattr(self, "nv", -1) + 1
        if vm and not force and not getattr(self, "_final", False) and not (vm >> (self.nv % 8)) & 1:
            self.feats.add("steps_without_queries")
            return True
        return False

    def verify(self, what):
        ctx, o = self.ctx, self.obj
        if self._skip_this_verify():
            return
        lo = self._o("lower")
        if lo:
            for k in self.pool:
                c = ctx.call(self.noexc, o.check, k)
                ctx.check(lo, ctx.call(self.noexc, o.check_alt, o.hashes(k)) == c, lambda: f"{what}: check_alt(hashes({k!r})) differs from check")
                ctx.check(lo, c >= self.true[k], lambda: f"{what}: check({k!r}) = {c} below the outstanding count {self.true[k]}")
                ctx.check(lo, ((k in o) is True) == (c > 0) or (k in o) == c, f"{what}: `in` disagrees with check")
        u = self._o("undo")
        if u:
            key = self._mkey()
            raw = bytes(o)
            if key in self.seen:
                if self.seen[key] != raw:
                    ctx.fail(u, f"{what}: the outstanding multiset {key} was seen before but the exported bytes differ now "
                                f"(removal did not undo addition exactly)")
                ctx.oracle_evals[u] += 1
                self.feats.add("state_revisited")
            else:
                self.seen[key] = raw
        c = self._o("counter")
        if c:
            # a freshly built filter: net amount; after a union the documented count is the estimate it was set to, +/- later amounts
            tot = self.count if getattr(self, "product", False) else sum(self.true.values())
            ctx.check(c, o.elements_added == tot, lambda: f"{what}: counting bloom elements_added {o.elements_added} != documented value {tot}")

    def run(self):
        if not self.ok:
            return False
        self.verify("fresh")
        for op in self.case["ops"]:
            self.step(op)
        self._final = True
        self.verify("at the end of the history")
        for f in self.feats:
            self.ctx.feat("cb_" + f)
        self.ctx.feat("cb_hash_" + self.case["hash"])
        return True


def case_strategy(tier, max_ops=40):
    from hypothesis import strategies as st

    from .. import gen

    ki = st.integers(0, 9)

    @st.composite
    def case(draw):
        est = draw(st.one_of(st.integers(1, 6), st.integers(1, 40)))
        fpr = draw(st.one_of(st.sampled_from([0.5, 0.3, 0.1, 0.05, 0.01, 0.001]), gen.fpr_st(9.0)))
        op = st.one_of(st.tuples(st.just("add"), ki, st.one_of(st.integers(1, 4), st.integers(1, 1000))),
                       st.tuples(st.just("add"), ki, st.integers(1, 3)),
                       st.tuples(st.just("remove"), ki, st.integers(0, 2000)),
                       st.tuples(st.just("remove"), ki, st.integers(0, 2000)),
                       st.tuples(st.just("stat")), st.tuples(st.just("swap"), ki, ki), st.tuples(st.just("clear")),
                       st.tuples(st.just("union"), st.lists(st.tuples(ki, st.integers(1, 4)), max_size=4).map(lambda l: [list(x) for x in l])),
                       st.tuples(st.just("reload"), st.integers(0, 2)))
        return {"t": "cbloom", "est": est, "fpr": fpr, "hash": draw(gen.hash_name_st()), "pool": draw(gen.pool_st(2, 8)),
                "ops": [list(o) for o in draw(st.lists(op, min_size=3, max_size=max_ops))],
                "alt_mode": draw(st.sampled_from(["", "", "scratch", "shared"])),
                "verify_mask": draw(st.one_of(st.just(0), st.just(0), st.integers(1, 255)))}

    return case()
