"""Helpers for the set-operation properties (C12, C13): build operands from generated streams."""
import os

from ..gen import dk, hash_by_name


def make_bloom(ctx, kind, est, fpr, hname, tag):
    from probables import BloomFilter, BloomFilterOnDisk, CountingBloomFilter

    hf = hash_by_name(hname)
    if kind == "ondisk":
        d = ctx.tmpdir()
        return BloomFilterOnDisk(os.path.join(d, tag + ".blm"), est, fpr, hash_function=hf)
    if kind == "counting":
        return CountingBloomFilter(est, fpr, hash_function=hf)
    return BloomFilter(est, fpr, hash_function=hf)


def make_cms(w, d, hname):
    from probables import CountMinSketch

    return CountMinSketch(width=w, depth=d, hash_function=hash_by_name(hname))


def resolve(stream, npool):
    """turn a generated stream [[ki, n], ...] into concrete operations: n > 0 add n; n < 0 a LEGITIMATE removal whose amount
    is taken modulo the key's running outstanding count within this stream (nothing outstanding: an add instead)"""
    from collections import Counter

    true = Counter()
    out = []
    for ki, n in stream:
        ki %= npool
        if n > 0:
            out.append([ki, n])
            true[ki] += n
        elif true[ki] <= 0:
            out.append([ki, -n])
            true[ki] += -n
        else:
            amt = 1 + (-n - 1) % true[ki]
            out.append([ki, -amt])
            true[ki] -= amt
    return out, true


def feed(obj, kind, pool, resolved):
    for ki, n in resolved:
        k = pool[ki]
        if kind in ("bloom", "ondisk"):
            obj.add(k)
        elif n > 0:
            obj.add(k, n)
        else:
            obj.remove(k, -n)


def cells(obj, kind):
    """cell array as bytes (bit array / uint32 counters)"""
    if kind == "counting":
        return obj.bloom.tobytes()
    return bytes(bytearray(obj.bloom[: obj.bloom_length]))


def close(obj):
    if getattr(obj, "is_on_disk", False):
        try:
            obj.close()
        except Exception:  # noqa
            pass


def stream_st(allow_remove, n_keys=10, max_len=12):
    from hypothesis import strategies as st

    ki = st.integers(0, n_keys - 1)
    amt = st.one_of(st.integers(1, 4), st.integers(1, 300))
    if allow_remove:
        amt = st.one_of(amt, amt, st.integers(-6, -1))
    return st.lists(st.tuples(ki, amt), max_size=max_len).map(lambda l: [list(x) for x in l])


def keys_of(case):
    return [dk(k) for k in case["pool"]]
