"""Helpers for the set-operation properties (C12, C13): build operands from generated streams."""
import os

from ..gen import dk, hash_by_name


PATHS = {}
FRESH = [False]  # set per case by the checks: build every structure with its own new strategy object


def _hf(ctx, hname):
    from ..gen import fresh_hash
    return fresh_hash(hname) if FRESH[0] else hash_by_name(hname)


def make_bloom(ctx, kind, est, fpr, hname, tag):
    from probables import BloomFilter, BloomFilterOnDisk, CountingBloomFilter

    hf = _hf(ctx, hname)
    if kind == "ondisk":
        d = ctx.tmpdir()
        o = BloomFilterOnDisk(os.path.join(d, tag + ".blm"), est, fpr, hash_function=hf)
        PATHS[id(o)] = os.path.join(d, tag + ".blm")
        return o
    if kind == "counting":
        return CountingBloomFilter(est, fpr, hash_function=hf)
    return BloomFilter(est, fpr, hash_function=hf)


def same_geometry_rate(est, fpr):
    """another nominal false-positive rate that derives exactly the same (number_bits, number_hashes) for this est_elements,
    or None: two sizings of one geometry are compatible operands by the library's own rule (bits, hashes, probe hashes)"""
    import struct
    from probables import BloomFilter

    try:
        ref = BloomFilter(est, fpr)
    except Exception:  # noqa
        return None
    for f in (1 - 1e-4, 1 + 1e-4, 1 - 1e-5, 1 + 1e-5, 1 - 2e-6, 1 + 2e-6, 1 - 3e-7):
        p2 = fpr * f
        if not 0 < p2 < 1 or struct.pack("f", p2) == struct.pack("f", fpr):
            continue
        try:
            o = BloomFilter(est, p2)
        except Exception:  # noqa
            continue
        if (o.number_bits, o.number_hashes) == (ref.number_bits, ref.number_hashes) and o.false_positive_rate != ref.false_positive_rate:
            return p2
    return None


def same_geometry_params(est, fpr, which=0):
    """another (est_elements, rate) pair that derives exactly the same (number_bits, number_hashes): the rate nudged (which even) or
    est_elements +-1 with the rate that lands on the same number of bits (which odd); None if there is none"""
    import math
    from probables import BloomFilter

    if which % 2 == 0 or est != int(est):
        p2 = same_geometry_rate(est, fpr)
        return None if p2 is None else (est, p2)
    try:
        ref = BloomFilter(est, fpr)
    except Exception:  # noqa
        return None
    m, k = ref.number_bits, ref.number_hashes
    for n2 in ((est + 1, est - 1) if which % 4 == 1 else (est - 1, est + 1)):
        if n2 < 1:
            continue
        p2 = math.exp(-(m - 0.5) * 0.4804530139182 / n2)
        if not 0 < p2 < 1:
            continue
        try:
            o = BloomFilter(n2, p2)
        except Exception:  # noqa
            continue
        if (o.number_bits, o.number_hashes) == (m, k):
            return n2, p2
    p2 = same_geometry_rate(est, fpr)
    return None if p2 is None else (est, p2)


OPERAND_VARIANTS = ["same", "same", "same", "reload", "hex", "file_ondisk", "zero", "handle2", "handle2", "moved"]


def second_handle(ctx, obj, kind, hname):
    """a second live handle on an on-disk operand's file, opened BEFORE anything is added through the first one: it sees the same
    bits (shared mapping) while its own element counter stays where it was"""
    from probables import BloomFilterOnDisk

    if kind != "ondisk":
        return None
    return BloomFilterOnDisk(PATHS[id(obj)], hash_function=_hf(ctx, hname))


def operand_variant(ctx, obj, kind, mode, hname, tag):
    """the same filter as it reaches a set operation in real use: reloaded from bytes / hex, exported to a file and reopened as an
    on-disk filter (element counter from the footer - 0 for a product whose estimate rounds to 0), or with its documented settable
    element counter assigned 0.  Returns (operand, kind, [objects to close])"""
    from probables import BloomFilter, BloomFilterOnDisk, CountingBloomFilter

    hf = _hf(ctx, hname)
    if mode == "reload":
        if kind == "counting":
            return CountingBloomFilter.frombytes(bytes(obj), hash_function=hf), kind, []
        return BloomFilter.frombytes(bytes(obj), hash_function=hf), "bloom", []
    if mode == "hex" and kind != "ondisk":
        K = CountingBloomFilter if kind == "counting" else BloomFilter
        return K(hex_string=obj.export_hex(), hash_function=hf), kind, []
    if mode == "file_ondisk" and kind != "counting":
        path = os.path.join(ctx.tmpdir(), tag + "-v.blm")
        obj.export(path)
        new = BloomFilterOnDisk(path, hash_function=hf)
        return new, "ondisk", [new]
    if mode == "zero":
        obj.elements_added = 0
        return obj, kind, []
    if mode == "moved" and kind == "ondisk" and id(obj) in PATHS and os.path.exists(PATHS[id(obj)]):
        # the backing file is renamed while the handle stays in use (log rotation, an atomic replace of the path by another
        # writer): the live object goes on working on its mapping, whatever now sits at the old path is not its business
        os.rename(PATHS[id(obj)], PATHS[id(obj)] + ".moved")
        with open(PATHS[id(obj)], "wb") as fh:
            fh.write(b"not a filter any more")
        return obj, kind, []
    return obj, kind, []


def make_cms(w, d, hname):
    from probables import CountMinSketch

    return CountMinSketch(width=w, depth=d, hash_function=_hf(None, hname))


def resolve(stream, npool):
    """turn a generated stream [[ki, n], ...] into concrete operations: n > 0 add n; n < 0 a LEGITIMATE removal whose amount
    is taken modulo the key's running outstanding count within this stream (nothing outstanding: an add instead)"""
    from collections import Counter

    true = Counter()
    out = []
    for ki, n in stream:
        ki %= npool
        if n > 0:
            out.append([ki, n])
            true[ki] += n
        elif true[ki] <= 0:
            out.append([ki, -n])
            true[ki] += -n
        else:
            amt = 1 + (-n - 1) % true[ki]
            out.append([ki, -amt])
            true[ki] -= amt
    return out, true


def feed(obj, kind, pool, resolved):
    for ki, n in resolved:
        k = pool[ki]
        if kind in ("bloom", "ondisk"):
            obj.add(k)
        elif n > 0:
            obj.add(k, n)
        else:
            obj.remove(k, -n)


def cells(obj, kind):
    """cell array as bytes (bit array / uint32 counters)"""
    if kind == "counting":
        return obj.bloom.tobytes()
    return bytes(bytearray(obj.bloom[: obj.bloom_length]))


def close(obj):
    if getattr(obj, "is_on_disk", False):
        try:
            obj.close()
        except Exception:  # noqa
            pass


def stream_st(allow_remove, n_keys=10, max_len=12):
    from hypothesis import strategies as st

    ki = st.integers(0, n_keys - 1)
    amt = st.one_of(st.integers(1, 4), st.integers(1, 300))
    if allow_remove:
        amt = st.one_of(amt, amt, st.integers(-6, -1))
    return st.lists(st.tuples(ki, amt), max_size=max_len).map(lambda l: [list(x) for x in l])


def keys_of(case):
    FRESH[0] = bool(case.get("fresh_hf"))
    pool = [dk(k) for k in case["pool"]]
    if "textonly" in (case.get("hash"), case.get("hash2")):
        # a strategy that accepts text keys only: the pool becomes text (bytes keys by their hex form)
        out = []
        for k in pool:
            k = k if isinstance(k, str) else "x" + bytes(k).hex()
            if k not in out:
                out.append(k)
        pool = out
    return pool
