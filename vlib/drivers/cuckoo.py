"""Driver for CuckooFilter / CountingCuckooFilter with scripted internal randomness (C03, C08, C14, C15).

Case: {"cls": "cuckoo"|"counting", "cap": c, "bs": b, "swaps": s, "fs": bytes, "rate": r, "auto": bool,
       "hash": name, "pool": [keys], "tape": [small ints], "ops": [["add", ki], ["remove", ki], ["expand"], ["reload", ch]],
       "enum_last": bool}
The filter's two uses of the `random` module are intercepted by rebinding the module attribute
`random` of probables.cuckoo.cuckoo / .countingcuckoo to a ScriptedRandom that reads the generated
tape (0 when exhausted) - so the eviction schedule is part of the generated input, shrinks with it
and is stored in the replay file.

P: member, full (C03)  counts, absent (C08)  counter (C14)  inv (C15)  allow_reload
"""
import copy
import io
import itertools
import os
import random as _global_random

from ..gen import dk, simple_hash_by_name


class ScriptedRandom:
    def __init__(self, tape):
        self.tape = list(tape)
        self.pos = 0
        self.calls = 0
        self.kicks = 0

    def _next(self):
        v = self.tape[self.pos] if self.pos < len(self.tape) else 0
        self.pos += 1
        self.calls += 1
        return v

    def choice(self, seq):
        return seq[self._next() % len(seq)]

    def randint(self, a, b):
        self.kicks += 1
        return a + self._next() % (b - a + 1)

    def __getattr__(self, name):  # anything else the library might start using stays deterministic
        return getattr(_global_random, name)


class Installed:
    """context manager rebinding the `random` attribute of the two cuckoo modules"""

    def __init__(self, sr):
        self.sr = sr

    def __enter__(self):
        import probables.cuckoo.countingcuckoo as m2
        import probables.cuckoo.cuckoo as m1

        self.mods = [m for m in (m1, m2) if hasattr(m, "random")]
        self.old = [m.random for m in self.mods]
        for m in self.mods:
            m.random = self.sr
        return self.sr

    def __exit__(self, *a):
        for m, o in zip(self.mods, self.old):
            m.random = o


def snapshot(obj, counting):
    if counting:
        return [[(int(x.finger), int(x.count)) for x in b] for b in obj.buckets]
    return [[int(x) for x in b] for b in obj.buckets]


class CuckooDriver:
    def __init__(self, case, ctx, P):
        from probables import CountingCuckooFilter, CuckooFilter
        from probables.exceptions import CuckooFilterFullError
        from probables.hashes import fnv_1a

        self.case, self.ctx, self.P = case, ctx, P
        self.counting = case["cls"] == "counting"
        self.K = CountingCuckooFilter if self.counting else CuckooFilter
        self.Full = CuckooFilterFullError
        self.hf = simple_hash_by_name(case["hash"])
        self.hf_eff = self.hf if self.hf is not None else fnv_1a
        self.pool = [dk(k) for k in case["pool"]]
        self.cfg = dict(capacity=case["cap"], bucket_size=case["bs"], max_swaps=case["swaps"], expansion_rate=case["rate"],
                        auto_expand=case["auto"], finger_size=case["fs"], hash_function=self.hf)
        self.sr = ScriptedRandom(case.get("tape", []))
        self.obj = self.K(**self.cfg)
        self.capacity = case["cap"]
        # the fingerprint of each pool key is learnt from a fresh single-key filter (C18 pins it to FNV separately)
        self.fp = {}
        for k in self.pool:
            probe = self.K(capacity=64, bucket_size=2, max_swaps=5, finger_size=case["fs"], hash_function=self.hf)
            probe.add(k)
            stored = [x for b in snapshot(probe, self.counting) for x in b]
            if len(stored) != 1:
                ctx.fail(ctx.prop + ".no_exception", f"a fresh filter stores {stored} after adding {k!r}")
            self.fp[k] = stored[0][0] if self.counting else stored[0]
        self.model = {}  # fingerprint -> outstanding additions (plain: 0/1)
        # a NEIGHBOUR: a second live filter of the same class and geometry whose hashing strategy gives every pool key the same
        # value (hence the same fingerprint) as the filter under test, but other values for everything else - in particular for
        # the strings of fingerprints that select the alternate bucket.  It receives the same keys first; nothing is asserted
        # about it.  Whatever the library shares between instances (class-level or module-level state keyed without the strategy)
        # is thereby filled with the neighbour's answers before the filter under test asks.
        self.neighbour = None
        if case.get("neighbour"):
            base, keys = self.hf_eff, set(self.pool)

            def nb_hash(key, *a):
                v = base(key, *a) if a else base(key)
                return v if key in keys else (v * 2654435761 + 97) & 0xFFFFFFFFFFFFFFFF
            try:
                self.neighbour = self.K(**dict(self.cfg, hash_function=nb_hash))
            except Exception:  # noqa
                self.neighbour = None
        self.feats = set()
        self.noexc = ctx.prop + ".no_exception"
        self.dir = None
        self.nfile = 0
        self.full_errors = 0
        self.expansions = 0
        _global_random.seed(len(case["ops"]) * 7919 + case["cap"])

    def _o(self, n):
        return self.P.get(n)

    def cands(self, fp, cap=None):
        cap = self.capacity if cap is None else cap
        return (fp % cap, self.hf_eff(str(fp)) % cap)

    # ------------------------------------------------------------------------------------
    def _skip_this_verify(self, force=False):
        """look-ups after EVERY step would refresh whatever the structure remembers from its last query before the next update can
        trip over it: with case["verify_mask"] the comparison with the model runs only at some steps (always at the end)"""
        vm = self.case.get("verify_mask", 0)
        self.nv = getattr(self, "nv", -1) + 1
        if getattr(self, "_mute", False) and not force:
            return True
        if vm and not force and not getattr(self, "_final", False) and not (vm >> (self.nv % 8)) & 1:
            self.feats.add("steps_without_queries")
            return True
        return False

    def verify(self, what, after_full=False):
        ctx, o = self.ctx, self.obj
        if self._skip_this_verify(force=after_full):
            return
        snap = snapshot(o, self.counting)
        m = self._o("member")
        if m:
            for k in self.pool:
                if self.model.get(self.fp[k], 0) > 0:
                    r = ctx.call(self.noexc, o.check, k)
                    ok = (r >= 1) if self.counting else (r is True)
                    ctx.check((self._o("full") or m) if after_full else m, ok and (k in o),
                              lambda: f"{what}: key {k!r} (fingerprint {self.fp[k]}) was added and not removed but check -> {r!r}")
        c = self._o("counts")
        if c and self.counting:
            for k in self.pool:
                want = self.model.get(self.fp[k], 0)
                r = ctx.call(self.noexc, o.check, k)
                ctx.check(c, r == want, lambda: f"{what}: check({k!r}) = {r} != outstanding additions of its fingerprint {self.fp[k]}: {want}")
                ctx.check(c, (k in o) == (want > 0), f"{what}: `in` disagrees for {k!r}")
        n = self._o("counter")
        if n:
            stored = sum(len(b) for b in snap)
            if self.counting:
                total = sum(cnt for b in snap for _, cnt in b)
                ctx.check(n, o.elements_added == total, lambda: f"{what}: counting cuckoo elements_added {o.elements_added} != sum of bin counts {total}")
                ctx.check(n, o.unique_elements == stored, lambda: f"{what}: unique_elements {o.unique_elements} != number of bins {stored}")
                ctx.check(n, total == sum(self.model.values()), lambda: f"{what}: sum of bin counts {total} != outstanding additions {sum(self.model.values())}")
                lf = stored / (o.capacity * o.bucket_size)
            else:
                ctx.check(n, o.elements_added == stored, lambda: f"{what}: cuckoo elements_added {o.elements_added} != stored fingerprints {stored}")
                ctx.check(n, stored == sum(1 for v in self.model.values() if v), lambda: f"{what}: {stored} fingerprints stored, model holds {sum(1 for v in self.model.values() if v)}")
                lf = stored / (o.capacity * o.bucket_size)
            ctx.check(n, abs(o.load_factor() - lf) < 1e-12, lambda: f"{what}: load_factor {o.load_factor()} != {lf}")
        i = self._o("inv")
        if i:
            bs = self.case["bs"]
            cap = o.capacity
            ctx.check(i, len(snap) == cap, f"{what}: {len(snap)} buckets for capacity {cap}")
            seen = set()
            for bi, b in enumerate(snap):
                ctx.check(i, len(b) <= bs, lambda: f"{what}: bucket {bi} holds {len(b)} > bucket_size {bs}")
                for e in b:
                    fp = e[0] if self.counting else e
                    ctx.check(i, bi in self.cands(fp, cap), lambda: f"{what}: fingerprint {fp} sits in bucket {bi}, candidates {self.cands(fp, cap)} (capacity {cap})")
                    ctx.check(i, fp not in seen, lambda: f"{what}: fingerprint {fp} stored twice")
                    seen.add(fp)
                    if self.counting:
                        ctx.check(i, e[1] >= 1, lambda: f"{what}: bin {e} has count < 1")
            ok_cap = cap == self.capacity
            ctx.check(i, ok_cap, lambda: f"{what}: capacity {cap} but expected {self.capacity} (changes only by x expansion_rate)")

    # ------------------------------------------------------------------------------------
    def do_add(self, k, what):
        """one add; returns 'ok' | 'full'"""
        ctx, o = self.ctx, self.obj
        fp = self.fp[k]
        calls0, kicks0, cap0 = self.sr.calls, self.sr.kicks, o.capacity
        if self.neighbour is not None:
            try:
                self.neighbour.add(k)
            except Exception:  # noqa  (a full neighbour just stays as it is)
                pass
            self.feats.add("neighbour_filter_with_other_strategy")
        hot = self.counting and self.model.get(fp, 0) >= 0xFFFFFFFF
        # a bin that already holds the largest count a 32-bit field can carry: the add may be refused (OverflowError, nothing
        # changed) or leave the count pinned - it must not wrap
        status, r = ctx.lib(self.noexc, o.add, k, allow=(self.Full, OverflowError) if hot else (self.Full,))
        if hot and status == "exc" and isinstance(r, OverflowError):
            self.feats.add("add_to_saturated_bin_refused")
            return "refused"
        if hot and status == "ok":
            self.feats.add("add_to_saturated_bin_accepted")
            return "refused"  # pinned: the model keeps the limit
        if self.sr.calls > calls0:
            self.feats.add("eviction_chain")
            n = self.sr.kicks - kicks0
            self.feats.add("chain_len_%s" % (n if n < 4 else "4+"))
        if o.capacity != cap0:
            # auto expansion: capacity may have been multiplied once (the library expands once per add)
            if self._o("inv"):
                ctx.check(self._o("inv"), o.capacity == cap0 * self.case["rate"],
                          lambda: f"add changed capacity {cap0} -> {o.capacity}, expansion_rate {self.case['rate']}")
            self.capacity = o.capacity
            self.expansions += 1
            self.feats.add("auto_expansion")
            if any(v > 1 for v in self.model.values()):
                self.feats.add("expansion_with_count>1")
        if status == "ok":
            if self.counting:
                self.model[fp] = self.model.get(fp, 0) + 1
            else:
                self.model[fp] = 1
            return "ok"
        self.full_errors += 1
        self.feats.add("full_error")
        self.feats.add("full_error_msg_expand" if "expand" in str(r) else "full_error_msg_full")
        return "full"

    def step(self, op):
        ctx, o = self.ctx, self.obj
        kind = op[0]
        if kind == "reload" and not self.P.get("allow_reload"):
            kind, op = "expand", ["expand"]
        if kind == "expand" and self.capacity * self.case["rate"] > 1500:
            kind, op = "add", ["add", len(self.ctx.trace)]  # keep tables small: no further manual growth
        if kind == "hkh":
            # hit, kick, hit: a stored key is looked up, one to three other keys are added (their eviction chains may relocate its
            # entry) with NO look-up in between, then the first key is added again / removed: what the filter remembered from the
            # look-up is stale by then
            present = [k for k in self.pool if self.model.get(self.fp[k], 0) > 0]
            if not present:
                return self.step(["add", op[1]])
            x = present[op[1] % len(present)]
            r = ctx.call(self.noexc, o.check, x)
            if self._o("member"):
                ctx.check(self._o("member"), bool(r), lambda: f"stored key {x!r} is reported absent")
            self._mute = True
            try:
                for j in range(1 + op[2] % 3):
                    self.step(["add", op[2] + j])
            finally:
                self._mute = False
            self.feats.add("hit_kick_hit")
            return self.step(["remove" if op[2] % 2 else "add", self.pool.index(x)])
        if kind == "hot":
            # a bin whose count is at / just below the 32-bit limit, obtained the only practical way: by loading an export that
            # holds it (a table "obtained by loading an export"); the key is then added again
            import struct
            present = [k for k in self.pool if self.model.get(self.fp[k], 0) > 0]
            if not self.counting or not present:
                return self.step(["add", op[1]])
            x = present[op[1] % len(present)]
            fpx = self.fp[x]
            raw = bytearray(ctx.call(self.noexc, bytes, o))
            done = False
            for i in range((len(raw) - 8) // 8):
                f, c = struct.unpack_from("II", raw, 8 * i)
                if f == fpx and c == self.model[fpx]:
                    struct.pack_into("I", raw, 8 * i + 4, 0xFFFFFFFF - op[2] % 3)
                    done = True
                    break
            if not done:
                return self.step(["add", op[1]])
            new = ctx.call(self.noexc, self.K.frombytes, bytes(raw), None, self.hf)
            if self.case["fs"] != 4:  # (4 bytes is what a loaded filter has anyway: nothing to re-supply)
                new.fingerprint_size = self.case["fs"]
            new.expansion_rate = self.case["rate"]
            new.auto_expand = self.case["auto"]
            self.obj = new
            self.model[fpx] = 0xFFFFFFFF - op[2] % 3
            self.feats.add("loaded_bin_near_32bit_limit")
            ctx.op("hot", self.pool.index(x), op[2] % 3)
            self.verify(f"after {op} (load)")
            for _ in range(1 + op[2] % 3):
                self.step(["add", self.pool.index(x)])
            return
        if kind == "add":
            k = self.pool[op[1] % len(self.pool)]
            before = dict(self.model)
            if self.counting and self.model.get(self.fp[k], 0) >= 1:
                self.feats.add("increment_existing")
            res = self.do_add(k, op)
            ctx.op("add", op[1] % len(self.pool), res)
            if res == "full":
                # every key present before must still be present; re-synchronise the NEW key only
                self.model = before
                self.verify(f"after add({k!r}) raised CuckooFilterFullError", after_full=True)
                r = o.check(k)
                fp = self.fp[k]
                if self.counting:
                    self.model[fp] = int(r)
                elif r:
                    self.model[fp] = 1
                return
        elif kind == "refused":
            # a documented refusal the caller survives: an invalid fingerprint size raises ValueError and must change nothing
            bad = [0, 5, 9, -1][op[1] % 4]
            def assign():
                o.fingerprint_size = bad
            status, r = ctx.lib(self.noexc, assign, allow=(ValueError,))
            ctx.check(self.noexc, status == "exc", f"fingerprint_size = {bad} was accepted")
            self.feats.add("refused_setter")
            ctx.op("refused", bad)
        elif kind == "addn":
            # the same key added many times in a row (counting filter: bin counts beyond one byte); plain filter: one add
            k = self.pool[op[1] % len(self.pool)]
            n = (2 + op[2] % 400) if self.counting else 1
            for _ in range(n):
                before = dict(self.model)
                if self.do_add(k, op) == "full":
                    self.model = before
                    self.verify(f"after add({k!r}) raised CuckooFilterFullError", after_full=True)
                    r = o.check(k)
                    if self.counting:
                        self.model[self.fp[k]] = int(r)
                    elif r:
                        self.model[self.fp[k]] = 1
                    break
                o = self.obj
            self.feats.add("addn")
            if self.counting and self.model.get(self.fp[k], 0) > 255:
                self.feats.add("bin_count>255")
            ctx.op("addn", op[1] % len(self.pool), n)
        elif kind == "remove":
            k = self.pool[op[1] % len(self.pool)]
            fp = self.fp[k]
            present = self.model.get(fp, 0) > 0
            snap = snapshot(o, self.counting)
            r = ctx.call(self.noexc, o.remove, k)
            a = self._o("absent")
            if present:
                self.model[fp] -= 1
                if self.model[fp] == 0:
                    del self.model[fp]
                if a:
                    ctx.check(a, r is True, lambda: f"remove({k!r}) of a present key returned {r!r}")
                self.feats.add("remove_present")
            else:
                if a:
                    ctx.check(a, r is False, lambda: f"remove({k!r}) of a key reported absent returned {r!r}")
                    ctx.check(a, snapshot(o, self.counting) == snap, f"remove({k!r}) of an absent key changed the table")
                self.feats.add("remove_absent")
            ctx.op("remove", op[1] % len(self.pool), bool(present))
        elif kind == "expand":
            calls0 = self.sr.calls
            if any(v > 1 for v in self.model.values()):
                self.feats.add("expansion_with_count>1")
            before = dict(self.model)
            cap0 = o.capacity
            status, r = ctx.lib(self.noexc, o.expand, allow=(self.Full,))
            if self._o("inv"):
                ok = o.capacity == cap0 * self.case["rate"] or (status != "ok" and o.capacity == cap0)
                ctx.check(self._o("inv"), ok, lambda: f"expand changed capacity {cap0} -> {o.capacity}, expansion_rate {self.case['rate']}")
            self.capacity = o.capacity
            self.expansions += 1
            self.feats.add("manual_expansion")
            if self.sr.calls > calls0:
                self.feats.add("eviction_chain")
            ctx.op("expand", status)
            if status != "ok":
                self.feats.add("full_error")
                self.feats.add("expand_failed")
                self.model = before
                self.verify("after expand() raised CuckooFilterFullError", after_full=True)
                return
        elif kind == "reload":
            self._reload(op[1])
        else:
            raise ValueError(op)
        self.verify(f"after {op}")

    def _reload(self, ch):
        ctx, o = self.ctx, self.obj
        if ch % 2 == 0:
            raw = ctx.call(self.noexc, bytes, o)
            self.verify("after exporting to bytes (the exported object itself)")
            new = ctx.call(self.noexc, self.K.frombytes, raw, None, self.hf)
        else:
            if self.dir is None:
                self.dir = ctx.tmpdir()
            self.nfile += 1
            p = os.path.join(self.dir, "c%d.cko" % self.nfile)
            ctx.call(self.noexc, o.export, p)
            self.verify("after exporting to a file (the exported object itself)")
            new = ctx.call(self.noexc, self.K, filepath=p, hash_function=self.hf)
        if self.case["fs"] != 4:  # (4 bytes is what a loaded filter has anyway: nothing to re-supply)
            new.fingerprint_size = self.case["fs"]
        new.expansion_rate = self.case["rate"]
        new.auto_expand = self.case["auto"]
        self.obj = new
        self.feats.add("reload")
        ctx.op("reload", ch % 2)

    # ------------------------------------------------------------------------------------
    def run(self):
        ops = self.case["ops"]
        with Installed(self.sr):
            self.verify("fresh")
            enum = self.case.get("enum_last") and ops and ops[-1][0] == "add"
            for op in (ops[:-1] if enum else ops):
                self.step(op)
            if enum:
                self._enumerate_last(ops[-1])
            else:
                self._final = True
                self.verify("at the end of the history")
        if self.sr.calls:
            self.feats.add("scripted_random_consulted")
        for f in self.feats:
            self.ctx.feat(f)
        self.ctx.feat("cls_" + self.case["cls"])
        self.ctx.feat("auto_" + ("on" if self.case["auto"] else "off"))
        self.ctx.feat("hash_" + self.case["hash"])

    def _enumerate_last(self, op):
        """exhaustive schedule slice: every resolution of the random choices of the last add"""
        bs, swaps = self.case["bs"], self.case["swaps"]
        base_obj, base_model, base_cap = self.obj, dict(self.model), self.capacity
        base_feats = set(self.feats)
        n = 0
        for first in (0, 1):
            for slots in itertools.product(range(bs), repeat=swaps):
                self.obj = copy.deepcopy(base_obj)
                self.model = dict(base_model)
                self.capacity = base_cap
                self.sr.tape = [first] + list(slots)
                self.sr.pos = 0
                self.step(op)
                n += 1
        self.feats |= base_feats
        self.feats.add("schedule_enumeration")
        self.ctx.feat("enumerated_schedules", n)
        self.obj = base_obj


def case_strategy(tier, classes=("cuckoo", "counting"), allow_reload=False, max_ops=45):
    from hypothesis import strategies as st

    from .. import gen

    ki = st.integers(0, 15)
    lim = 256 if tier == "quick" else 4096

    @st.composite
    def case(draw):
        cls = draw(st.sampled_from(classes))
        bs = draw(st.integers(1, 3))
        swaps = draw(st.integers(1, 6))
        ops = [st.tuples(st.just("add"), ki)] * 8 + [st.tuples(st.just("remove"), ki)] * 2 + [st.tuples(st.just("hkh"), ki, st.integers(0, 47))]
        if cls == "counting" and draw(st.integers(0, 2)) == 0:
            ops.append(st.tuples(st.just("hot"), ki, st.integers(0, 8)))
        if draw(st.integers(0, 3)) == 0:
            ops.append(st.tuples(st.just("refused"), st.integers(0, 3)))
        if cls == "counting" and draw(st.integers(0, 3)) == 0:
            ops.append(st.tuples(st.just("addn"), ki, st.integers(0, 399)))
        if draw(st.integers(0, 2)) == 0:
            ops.append(st.tuples(st.just("expand")))
        if allow_reload:
            ops.append(st.tuples(st.just("reload"), st.integers(0, 1)))
        oplist = [list(o) for o in draw(st.lists(st.one_of(*ops), min_size=3, max_size=max_ops))]
        # dense profile (1/3): buckets of 2-4 slots, few buckets, every pool key added first - so alternate buckets hold several
        # entries and removals / look-ups hit fingerprints that are neither in their first bucket nor last in their second
        dense = draw(st.integers(0, 2)) == 0
        cap = draw(st.one_of(st.integers(1, 3), st.integers(1, 6)))
        pool = draw(gen.pool_st(4, 16))
        if dense:
            bs = draw(st.integers(2, 4))
            cap = draw(st.integers(2, 6))
            oplist = [["add", i] for i in range(len(pool))] + oplist
        enum = 2 * bs ** swaps <= lim and draw(st.integers(0, 7)) == 0
        if enum:
            oplist.append(["add", draw(ki)])
        return {
            "cls": cls, "cap": cap, "bs": bs, "swaps": swaps,
            "fs": draw(st.sampled_from([1, 2, 3, 4])), "rate": draw(st.sampled_from([2, 2, 3, 1])),
            "auto": draw(st.booleans()), "hash": draw(st.sampled_from(["default", "narrow", "narrow16", "sha", "clustered", "clustered", "falsy_sha", "edges"])),
            "pool": pool, "tape": draw(st.lists(st.integers(0, 5), max_size=60)),
            "ops": oplist, "enum_last": enum, "neighbour": draw(st.sampled_from([0, 0, 1])), "verify_mask": draw(st.one_of(st.just(0), st.just(0), st.integers(1, 255))),
        }

    return case()
