"""Driver for QuotientFilter (C04, C14): exact-set model over structured 32-bit hashes.

Case: {"q": 3..5, "auto": bool, "mlf": float|None, "hash": "default"|"sha", "tops": [t...], "lows": [r...], "pool": [keys],
       "ops": [["add", ti, ri], ["remove", ti, ri], ["addkey", ki], ["removekey", ki], ["resize", dq|None],
               ["merge", [[ti, ri], ...], q2], ["raw", h32, is_add]]}
A hash is (tops[ti] << 24) | lows[ri]: the top byte comes from a small per-case pool (neighbouring values, incl. 0 and 255) so that at
every quotient size 3..8 runs, clusters, shifted runs and wrap-around at the end of the table are the common case.

Every library call runs under a deterministic line budget (sys.settrace on quotientfilter.py frames): exceeding it is a
non-termination verdict.

P: set     membership / non-membership / hash list / size+load factor
   counter elements_added == len(model)   (C04 uses it too; C14 only this)
   term    line budget
   legit   exceptions only where the property allows them
"""
import os
import sys

from ..gen import dk

LINE_BUDGET = 400_000


class Budget(Exception):
    pass


class CaseTimeout(BaseException):
    """raised by SIGALRM in fast mode; the case is then re-run under the deterministic line budget"""


def run_with_fallback(case, ctx, P, seconds=20):
    """Fast mode: no tracing, a wall-clock alarm only decides that the case must be re-run in careful mode, where the
    deterministic line budget gives the verdict (a time limit alone is never a violation)."""
    import signal

    if ctx.careful or ctx.tier == "thorough":
        d = QFDriver(case, ctx, P, trace=True)
        d.run()
        return d

    def on_alarm(sig, frm):
        raise CaseTimeout()

    old = signal.signal(signal.SIGALRM, on_alarm)
    signal.setitimer(signal.ITIMER_REAL, seconds)
    try:
        d = QFDriver(case, ctx, P, trace=False)
        d.run()
        return d
    except CaseTimeout:
        signal.setitimer(signal.ITIMER_REAL, 0)
        ctx.feat("rerun_in_careful_mode_after_timeout")
        ctx.trace.clear()
        d = QFDriver(case, ctx, P, trace=True)
        d.run()
        ctx.feat("inconclusive_slow_case")
        return d
    finally:
        signal.setitimer(signal.ITIMER_REAL, 0)
        signal.signal(signal.SIGALRM, old)


class LineBudget:
    """counts line events in probables/quotientfilter/*.py frames; raises Budget when exhausted"""

    def __init__(self, limit=LINE_BUDGET):
        self.limit = limit
        self.count = 0
        self.lines = set()

    def _local(self, frame, event, arg):
        if event == "line":
            self.count += 1
            if self.count > self.limit:
                raise Budget()
        return self._local

    def _global(self, frame, event, arg):
        if "quotientfilter" in frame.f_code.co_filename:
            return self._local
        return None

    def run(self, fn, *a):
        self.count = 0
        old = sys.gettrace()
        sys.settrace(self._global)
        try:
            return fn(*a)
        finally:
            sys.settrace(old)


class QFDriver:
    def __init__(self, case, ctx, P, trace=True):
        from probables import QuotientFilter
        from probables.exceptions import QuotientFilterError
        from probables.hashes import fnv_1a_32

        self.K, self.Err = QuotientFilter, QuotientFilterError
        self.case, self.ctx, self.P = case, ctx, P
        self.hf = None
        if case.get("hash") in ("sha", "falsy_sha"):
            import hashlib

            def hf(key, depth=0):
                kb = key.encode("utf-8") if isinstance(key, str) else bytes(key)
                return int.from_bytes(hashlib.sha256(kb).digest()[:4], "big")
            self.hf = hf
            if case["hash"] == "falsy_sha":
                from ..gen import FalsyCallable
                self.hf = FalsyCallable(hf)
        if case.get("hash") == "edges":
            # a strategy whose values sit on the edges of the 32-bit range (every one a valid hash)
            import hashlib
            EDGES = [0, 0xFFFFFFFF, 0xFFFFFFFE, 1, 0x80000000, 0x7FFFFFFF, 0xFFFF0000, 0x0000FFFF]

            def hf_edges(key, depth=0):
                kb = key.encode("utf-8") if isinstance(key, str) else bytes(key)
                return EDGES[hashlib.sha256(kb).digest()[0] % len(EDGES)]
            self.hf = hf_edges
        self.hf_eff = self.hf if self.hf is not None else (lambda key, d=0: fnv_1a_32(key, 0))
        self.pool = [dk(k) for k in case.get("pool", [])] or ["a"]
        self.tops, self.lows = case["tops"], case["lows"]
        self.lb = LineBudget()
        self.trace = trace
        self.noexc = ctx.prop + ".no_exception"
        self.obj = self.K(quotient=case["q"], auto_expand=case["auto"], hash_function=self.hf)
        if case.get("mlf") is not None:
            self.obj.max_load_factor = case["mlf"]
        if case.get("mlf_low") is not None and not case["auto"] and not any(op[0] == "toggle_auto" for op in case["ops"]):
            self.obj.max_load_factor = case["mlf_low"]
        self.model = set()
        self.feats = set()
        self.universe = sorted({(t << 24) | r for t in self.tops for r in self.lows} | {self.hf_eff(k, 0) for k in self.pool})
        self.maxq = max(8, case["q"])
        self.lb.limit = max(LINE_BUDGET, 60 * self.obj.size)

    def _o(self, n):
        return self.P.get(n)

    def H(self, ti, ri):
        return (self.tops[ti % len(self.tops)] << 24) | self.lows[ri % len(self.lows)]

    def call(self, fn, *a, allow=()):
        """library call under the line budget"""
        ctx = self.ctx
        try:
            if not self.trace:
                return ctx.lib(self.noexc, fn, *a, allow=allow)
            return ctx.lib(self.noexc, self.lb.run, fn, *a, allow=allow)
        except Budget:
            t = self._o("term") or self.noexc
            ctx.fail(t, f"{getattr(fn, '__name__', fn)}{a!r} executed more than {LINE_BUDGET} library lines on a "
                        f"{self.obj.size}-slot table (non-termination)")

    # ------------------------------------------------------------------------------------
    def _layout_feats(self, h, removing):
        o = self.obj
        size, r = o.size, o.remainder
        qs = [x >> r for x in self.model]
        q = h >> r
        near = sum(1 for x in qs if (q - x) % size <= 2)
        if removing and near >= 3:
            self.feats.add("removal_in_cluster>=3")
        last = sum(1 for x in qs if x == size - 1)
        if last >= 2 or (last >= 1 and sum(1 for x in qs if x == size - 2) >= 2):
            self.feats.add("wrap_around")
        if len(self.model) == size:
            self.feats.add("table_full")

    def step(self, op):
        ctx, o = self.ctx, self.obj
        kind = op[0]
        legit = self._o("legit") or self.noexc
        if kind == "lsr":
            # look-up, shift, remove: a stored hash x is looked up (hit), another hash is added (entries of x's cluster may move),
            # then x is removed - with NO other look-up in between; whatever the filter remembered from the look-up is stale now
            if not self.model:
                return self.step(["add", op[2], op[3]])
            x = sorted(self.model)[op[1] % len(self.model)]
            st, r = self.call(o.check_alt, x)
            if self._o("set"):
                ctx.check(self._o("set"), r is True, lambda: f"stored hash {x:#x} is reported absent")
            keep = getattr(self, "_skip_verify", False)
            self._skip_verify = True
            try:
                self.step(["add", op[2], op[3]])
            finally:
                self._skip_verify = keep
            if x in self.model:
                status, r = self.call(o.remove_alt, x)
                self.model.discard(x)
                self._layout_feats(x, True)
                ctx.op("raw_remove", hex(x), status)
            self.feats.add("lookup_shift_remove")
            return self.verify(f"after {op}")
        if kind in ("add", "addkey", "raw_add"):
            if kind == "add":
                h = self.H(op[1], op[2])
            elif kind == "raw_add":
                h = op[1] & 0xFFFFFFFF
            else:
                key = self.pool[op[1] % len(self.pool)]
                h = self.hf_eff(key, 0)
            new = h not in self.model
            if new and o.quotient >= self.maxq and len(self.model) >= 0.8 * o.size and not self.case.get("nocap"):
                return self.step(["remove", op[1], op[2] if len(op) > 2 else 0])  # keep tables <= 2^8 slots
            # no room: a non-expanding filter that is completely full - or an auto-expanding one whose maximum load factor was set
            # above 1, so that it never grows before it is completely full (then the add is refused, never misplaced)
            full = len(self.model) >= o.size and ((not o.auto_expand) or o.max_load_factor > 1.0)
            if kind == "addkey":
                status, r = self.call(o.add, key, allow=(self.Err,))
            else:
                status, r = self.call(o.add_alt, h, allow=(self.Err,))
            if status == "exc":
                ctx.check(legit, new and full, lambda: f"add of {h:#x} raised {r!r} although the filter holds {len(self.model)} of {o.size} "
                                                        f"hashes (auto_expand={o.auto_expand}, new={new})")
                self.feats.add("add_refused_full")
            else:
                ctx.check(legit, not (new and full), lambda: f"add of a new hash into a full non-expanding filter ({o.size} slots) did not raise")
                self.model.add(h)
            self._layout_feats(h, False)
            ctx.op(kind, hex(h), status)
        elif kind in ("remove", "removekey", "raw_remove"):
            if kind == "remove":
                h = self.H(op[1], op[2])
            elif kind == "raw_remove":
                h = op[1] & 0xFFFFFFFF
            else:
                key = self.pool[op[1] % len(self.pool)]
                h = self.hf_eff(key, 0)
            member = h in self.model
            if member:
                self._layout_feats(h, True)
            if kind == "removekey":
                self.call(o.remove, key)
            else:
                self.call(o.remove_alt, h)
            self.model.discard(h)
            self.feats.add("remove_member" if member else "remove_nonmember")
            ctx.op(kind, hex(h), member)
        elif kind == "resize":
            dq = op[1]
            newq = None if dq is None else o.quotient + dq
            if dq is not None and dq >= 100:
                newq = dq - 100 + 32  # an ABSOLUTE target above the documented range (32, 33, 40): must be refused, nothing changed
            target = o.quotient + 1 if newq is None else newq
            if self.maxq < target <= 31:
                return
            oldq = o.quotient
            status, r = self.call(o.resize, newq, allow=(self.Err,))
            must_refuse = target < 3 or target > 31 or len(self.model) >= (1 << target)
            if status == "exc":
                ctx.check(legit, must_refuse, lambda: f"resize({newq}) from quotient {oldq} raised {r!r} with {len(self.model)} stored hashes")
                self.feats.add("resize_refused")
            else:
                # with auto_expand the re-insertion may legitimately grow the table again (load factor), so only >=
                okq = o.quotient == target or (o.auto_expand and o.quotient > target)
                ctx.check(self._o("set") or legit, okq, lambda: f"resize({newq}) left quotient {o.quotient}")
                if len(self.model) >= 4:
                    self.feats.add("resize_with>=4")
                self.feats.add("resize_up" if target > oldq else "resize_down" if target < oldq else "resize_same")
            ctx.op("resize", newq, status)
        elif kind == "toggle_auto":
            # the documented settable switch: off -> on leaves a filter that may be fuller than its maximum load factor (an
            # expansion is then pending at the next insertion), on -> off freezes the size
            def flip():
                o.auto_expand = not o.auto_expand
            self.call(flip)
            self.feats.add("auto_expand_toggled")
            ctx.op("toggle_auto", o.auto_expand)
        elif kind == "merge_self":
            # the union of a set with itself: merging a filter into itself must leave it as it is (the library iterates over the
            # argument while inserting into the receiver - here they are the same object)
            if (not o.auto_expand and False) or len(self.model) > 0.7 * o.size and o.quotient >= self.maxq:
                return self.step(["remove", 0, 0])
            if not o.auto_expand and o.load_factor >= o.max_load_factor and o.quotient < self.maxq:
                # the switch is turned on for a filter that is already fuller than its maximum load factor: the very first
                # insertion of the merge triggers the pending expansion
                def flip():
                    o.auto_expand = True
                self.call(flip)
                self.feats.add("merge_with_itself_expansion_pending")
            self.call(o.merge, o)
            self.feats.add("merge_with_itself")
            ctx.op("merge_self")
        elif kind == "merge":
            hs = [self.H(t, r) for t, r in op[1]]
            q2 = op[2]
            if (not o.auto_expand) or o.max_load_factor > 1.0:  # (a filter that does not grow before it is full: only what fits)
                room = o.size - len(self.model)
                keep = []
                for x in hs:
                    if x in self.model or x in keep:
                        keep.append(x)
                    elif room > 0:
                        keep.append(x)
                        room -= 1
                hs = keep
            elif o.quotient >= self.maxq:
                hs = [x for x in hs if x in self.model]
            second = self.K(quotient=q2, auto_expand=True, hash_function=self.hf)
            for x in hs:
                second.add_alt(x)
            snap2 = sorted(second.get_hashes())
            self.call(o.merge, second)
            self.model |= set(hs)
            ctx.check(self._o("set") or legit, sorted(second.get_hashes()) == snap2, "merge modified its argument")
            # the argument stays in use afterwards: modifying it must not reach the receiver (checked by the verify below)
            if hs:
                second.remove_alt(hs[0])
            second.add_alt(0x5A5A5A5A)
            second.add_alt(self.H(0, 0) ^ 0x00FFFF00)
            self.feats.add("merge_then_argument_modified")
            if len(self.model) >= 4 and hs:
                self.feats.add("merge_with>=4")
            ctx.op("merge", [hex(x) for x in hs], q2)
        else:
            raise ValueError(op)
        self.verify(f"after {op}")

    def verify(self, what):
        ctx, o = self.ctx, self.obj
        if getattr(self, "_skip_verify", False):
            return
        s = self._o("set")
        if s:
            for h in self.model:
                st, r = self.call(o.check_alt, h)
                ctx.check(s, r is True, lambda: f"{what}: stored hash {h:#x} is reported absent")
            for h in self.universe:
                if h not in self.model:
                    st, r = self.call(o.check_alt, h)
                    ctx.check(s, r is False, lambda: f"{what}: hash {h:#x} is reported present but was never added / was removed")
            if not self.case.get("light"):  # big tables (quotient 16 / 24): no full-table scans
                st, got = self.call(o.get_hashes)
                ctx.check(s, sorted(got) == sorted(self.model),
                          lambda: f"{what}: get_hashes() = {[hex(x) for x in sorted(got)]} != model {[hex(x) for x in sorted(self.model)]}")
                # two walks at once: an iterator over the stored hashes is left half-way while the whole list is taken (of the same
                # filter and of an independent one), then finished - each walk is its own
                def overlapped():
                    it = o.hashes()
                    part = []
                    for _ in range(len(self.model) // 2):
                        x = next(it, None)
                        if x is None:
                            break
                        part.append(x)
                    other = self.K(quotient=3, auto_expand=True, hash_function=self.hf)
                    for x in (1 << 29, (1 << 29) + 1, 3 << 29, 5):
                        other.add_alt(x)
                    mid = (sorted(o.get_hashes()), sorted(other.get_hashes()))
                    return sorted(part + list(it)), mid
                st, ov = self.call(overlapped)
                if st == "ok":
                    ctx.check(s, ov[0] == sorted(self.model) and ov[1][0] == sorted(self.model) and ov[1][1] == sorted([1 << 29, (1 << 29) + 1, 3 << 29, 5]),
                              lambda: f"{what}: two overlapping walks over the stored hashes disturb each other: {[hex(x) for x in ov[0]]} / "
                                      f"{[hex(x) for x in ov[1][0]]} vs model {[hex(x) for x in sorted(self.model)]}")
                if isinstance(got, list):
                    # the list is the caller's: used up as a work stack here - the filter must not be holding on to it
                    snapshot_ = sorted(got)
                    del got[len(got) // 2:]
                    got.reverse()
                    st, again = self.call(o.get_hashes)
                    ctx.check(s, sorted(again) == snapshot_, lambda: f"{what}: get_hashes() changed after the caller modified the list it got before")
            ctx.check(s, o.size == 2 ** o.quotient == o.num_elements and o.remainder == 32 - o.quotient, f"{what}: size/quotient/remainder")
            ctx.check(s, abs(o.load_factor - len(self.model) / o.size) < 1e-12, lambda: f"{what}: load_factor {o.load_factor} != {len(self.model)}/{o.size}")
            for k in self.pool[:3]:
                hk = self.hf_eff(k, 0)
                st, r = self.call(o.check, k)
                ctx.check(s, r == (hk in self.model) and (k in o) == r, lambda: f"{what}: check({k!r}) -> {r!r}, hash {hk:#x} in model: {hk in self.model}")
        c = self._o("counter")
        if c:
            ctx.check(c, o.elements_added == len(self.model), lambda: f"{what}: quotient filter elements_added {o.elements_added} != stored hashes {len(self.model)}")

    def run(self):
        self.verify("fresh")
        ops = self.case["ops"]
        every = self.case.get("verify_every")
        for i, op in enumerate(ops):
            # long constructions (e.g. filling a 512-slot table completely): the full comparison only every n-th step and at the end
            self._skip_verify = bool(every) and i % every != 0 and i < len(ops) - 3
            if self._skip_verify:
                self.feats.add("steps_without_lookups")
            self.step(op)
        self._skip_verify = False
        for f in self.feats:
            self.ctx.feat(f)
        self.ctx.feat("final_q=%d" % self.obj.quotient)
        self.ctx.feat("auto_" + ("on" if self.case["auto"] else "off"))


def case_strategy(tier, max_ops=60):
    from hypothesis import strategies as st

    from .. import gen

    @st.composite
    def case(draw):
        ntops = draw(st.integers(2, 8))
        base = draw(st.sampled_from([0, 0, 250, 252, 31, 32, 96, 128, 224, 255]))
        step = draw(st.sampled_from([1, 1, 1, 2, 8, 32]))
        tops = sorted({(base + i * step) % 256 for i in range(ntops)} | set(draw(st.lists(st.integers(0, 255), max_size=2))))
        lows = sorted({0, 1, 2, 3} | {draw(st.integers(0, 2 ** 24 - 1))})
        q = draw(st.sampled_from([3, 3, 3, 4, 4, 5]))
        dense = draw(st.integers(0, 3)) == 0
        if dense:
            # EVERY quotient of a small table with the same two to five remainders: each insert into an earlier run shifts later
            # entries into slots that held an equal remainder of another quotient a moment ago
            q = draw(st.sampled_from([3, 3, 4]))
            tops = [i << (8 - q) for i in range(2 ** q)]
            lows = [0, 1, 2, 3, 4][: draw(st.integers(2, 5))]  # (2-3 remainders: equal remainders everywhere; 4-5: long runs)
        if not dense and draw(st.integers(0, 5)) == 0:
            # FEW neighbouring quotients with many remainders each: long runs whose successors' runs are all displaced
            q = draw(st.sampled_from([4, 4, 5]))
            b0 = draw(st.integers(0, 2 ** q - 1))
            tops = sorted({((b0 + i) % 2 ** q) << (8 - q) for i in range(draw(st.integers(3, 5)))})
            lows = list(range(draw(st.integers(4, 7))))
        ti, ri = st.integers(0, len(tops) - 1), st.integers(0, len(lows) - 1)
        ops = [st.tuples(st.just("add"), ti, ri)] * 6 + [st.tuples(st.just("remove"), ti, ri)] * 3 + [
            st.tuples(st.just("addkey"), st.integers(0, 5)), st.tuples(st.just("removekey"), st.integers(0, 5)),
            st.tuples(st.just("resize"), st.sampled_from([None, None, 1, -1, -2, 2, 0, 100, 101, 108])),
            st.tuples(st.just("merge"), st.lists(st.tuples(ti, ri), max_size=6), st.integers(3, 6)),
            st.tuples(st.sampled_from(["raw_add", "raw_remove"]), st.integers(0, 2 ** 32 - 1)),
            st.tuples(st.just("lsr"), st.integers(0, 40), ti, ri),
            st.tuples(st.just("merge_self")), st.tuples(st.just("toggle_auto")),
        ]
        return {
            "q": q, "auto": draw(st.booleans()), "dense": dense,
            # (for a filter that starts non-expanding also low maximum load factors: they only matter to an explicit resize)
            "mlf": draw(st.sampled_from([None, None, None, 0.5, 0.95, 1.0, 0.25, 1.5])),
            "mlf_low": draw(st.sampled_from([None, None, 0.1, 0.05])),
            "hash": draw(st.sampled_from(["default", "default", "sha", "falsy_sha", "edges"])),
            "tops": tops, "lows": lows, "pool": draw(gen.pool_st(2, 6)),
            "ops": [list(o) for o in draw(st.lists(st.one_of(*ops), min_size=4, max_size=max_ops))],
            # look-ups after every step would refresh anything the filter remembers from its last look-up before the next update
            # can trip over it: in a third of the cases the comparison with the model runs only every n-th step (and at the end)
            "verify_every": draw(st.sampled_from([0, 0, 0, 0, 2, 3, 7] if not dense else [0, 2, 3, 3, 7])),
        }

    return case()
