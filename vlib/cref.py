"""ctypes binding for cref/ref.c (built on demand into build/libref.so)."""
import ctypes as C
import os
import subprocess

from .core import VERIF_DIR, HarnessError

SRC = os.path.join(VERIF_DIR, "cref", "ref.c")
OUT = os.path.join(VERIF_DIR, "build", "libref.so")
_lib = None


def build(force=False):
    os.makedirs(os.path.dirname(OUT), exist_ok=True)
    if not force and os.path.exists(OUT) and os.path.getmtime(OUT) >= os.path.getmtime(SRC):
        return OUT
    tmp = OUT + ".%d.tmp" % os.getpid()
    base = ["gcc", "-O1", "-fPIC", "-shared", "-Wall", "-o", tmp, SRC, "-lm"]
    r = subprocess.run(base[:5] + ["-fsanitize=undefined", "-fno-sanitize-recover=undefined",
                                   "-fno-sanitize=unsigned-integer-overflow"] + base[5:],
                       capture_output=True, text=True)
    if r.returncode != 0:
        r = subprocess.run(base, capture_output=True, text=True)
        if r.returncode != 0:
            raise HarnessError("cannot build cref/ref.c: " + r.stderr[-800:])
    os.replace(tmp, OUT)
    return OUT


def lib():
    global _lib
    if _lib is None:
        build()
        L = C.CDLL(OUT)
        u8p, u64p, i32p, i64p, u32p = (C.c_char_p, C.POINTER(C.c_uint64), C.POINTER(C.c_int32),
                                       C.POINTER(C.c_int64), C.POINTER(C.c_uint32))
        L.ref_fnv1a64.restype = C.c_uint64
        L.ref_fnv1a64.argtypes = [u8p, C.c_size_t, C.c_uint64]
        L.ref_fnv1a32.restype = C.c_uint32
        L.ref_fnv1a32.argtypes = [u8p, C.c_size_t, C.c_uint32]
        L.ref_default_hashes.restype = None
        L.ref_default_hashes.argtypes = [u8p, C.c_size_t, C.c_int, u64p]
        L.ref_bloom_params.restype = C.c_int
        L.ref_bloom_params.argtypes = [C.c_uint64, C.c_float, u64p, u32p]
        L.ref_bloom_footer.restype = C.c_int
        L.ref_bloom_footer.argtypes = [u8p, C.c_size_t, u64p, u64p, C.POINTER(C.c_float), u64p, u32p]
        L.ref_bloom_check.restype = C.c_int
        L.ref_bloom_check.argtypes = [u8p, C.c_size_t, u8p, C.c_size_t]
        L.ref_cbloom_check.restype = C.c_int64
        L.ref_cbloom_check.argtypes = [u8p, C.c_size_t, u8p, C.c_size_t]
        L.ref_cms_query.restype = C.c_int
        L.ref_cms_query.argtypes = [u8p, C.c_size_t, u8p, C.c_size_t, C.c_int, i64p, C.POINTER(C.c_int)]
        L.ref_bloom_write.restype = C.c_int64
        L.ref_bloom_write.argtypes = [C.c_uint64, C.c_float, u8p, u64p, i32p, C.c_size_t, u8p, C.c_size_t]
        L.ref_cbloom_write.restype = C.c_int64
        L.ref_cbloom_write.argtypes = [C.c_uint64, C.c_float, u8p, u64p, i32p, i64p, C.c_size_t, u8p, C.c_size_t]
        L.ref_cms_write.restype = C.c_int64
        L.ref_cms_write.argtypes = [C.c_uint32, C.c_uint32, u8p, u64p, i32p, i64p, C.c_size_t, u8p, C.c_size_t]
        L.ref_expanding_write.restype = C.c_int64
        L.ref_expanding_write.argtypes = [C.c_uint64, C.c_float, C.c_uint64, u8p, u64p, i32p, i32p, C.c_size_t,
                                          C.c_uint64, u8p, C.c_size_t]
        L.ref_cuckoo_write.restype = C.c_int64
        L.ref_cuckoo_write.argtypes = [C.c_uint32, C.c_uint32, C.c_uint32, u32p, u32p, u32p, u8p, C.c_size_t]
        L.ref_cuckoo_check.restype = C.c_int64
        L.ref_cuckoo_check.argtypes = [u8p, C.c_size_t, C.c_int, C.c_uint32, u8p, C.c_size_t]
        _lib = L
    return _lib


# ---- convenience wrappers ------------------------------------------------------------------

def fnv64(data, basis=14695981039346656037):
    return lib().ref_fnv1a64(bytes(data), len(data), basis & ((1 << 64) - 1))


def fnv32(data, basis=0x811C9DC5):
    return lib().ref_fnv1a32(bytes(data), len(data), basis & 0xFFFFFFFF)


def default_hashes(data, depth):
    out = (C.c_uint64 * depth)()
    lib().ref_default_hashes(bytes(data), len(data), depth, out)
    return list(out)


def bloom_params(n, p):
    m, k = C.c_uint64(), C.c_uint32()
    rc = lib().ref_bloom_params(n, p, C.byref(m), C.byref(k))
    return rc, m.value, k.value


def bloom_params_sweep(n0, count, p):
    """[(m, k)] for n0 .. n0+count-1 computed by the C reference in one call"""
    m, k = (C.c_uint64 * count)(), (C.c_uint32 * count)()
    f = lib().ref_bloom_params_sweep
    f.restype = None
    f.argtypes = [C.c_uint64, C.c_uint64, C.c_float, C.POINTER(C.c_uint64), C.POINTER(C.c_uint32)]
    f(n0, count, p, m, k)
    return list(m), list(k)


def bloom_footer(raw):
    est, added, m = C.c_uint64(), C.c_uint64(), C.c_uint64()
    fpr, k = C.c_float(), C.c_uint32()
    rc = lib().ref_bloom_footer(raw, len(raw), C.byref(est), C.byref(added), C.byref(fpr), C.byref(m), C.byref(k))
    return rc, est.value, added.value, fpr.value, m.value, k.value


def bloom_check(raw, key):
    return lib().ref_bloom_check(raw, len(raw), bytes(key), len(key))


def cbloom_check(raw, key):
    return lib().ref_cbloom_check(raw, len(raw), bytes(key), len(key))


def cms_query(raw, key, qtype):
    out, neg = C.c_int64(), C.c_int()
    rc = lib().ref_cms_query(raw, len(raw), bytes(key), len(key), qtype, C.byref(out), C.byref(neg))
    return rc, out.value, neg.value


def _keys(keys):
    blob = b"".join(keys)
    off = (C.c_uint64 * (len(keys) + 1))()
    pos = 0
    for i, k in enumerate(keys):
        off[i] = pos
        pos += len(k)
    off[len(keys)] = pos
    return blob if blob else b"\0", off


def bloom_write(n, p, keys, seq):
    blob, off = _keys(keys)
    cap = 1 << 22
    out = C.create_string_buffer(cap)
    s = (C.c_int32 * max(1, len(seq)))(*seq)
    r = lib().ref_bloom_write(n, p, blob, off, s, len(seq), C.cast(out, C.c_char_p), cap)
    return r, out.raw[:max(0, r)]


def cbloom_write(n, p, keys, seq, amts):
    blob, off = _keys(keys)
    cap = 1 << 23
    out = C.create_string_buffer(cap)
    s = (C.c_int32 * max(1, len(seq)))(*seq)
    a = (C.c_int64 * max(1, len(seq)))(*amts)
    r = lib().ref_cbloom_write(n, p, blob, off, s, a, len(seq), C.cast(out, C.c_char_p), cap)
    return r, out.raw[:max(0, r)]


def cms_write(w, d, keys, seq, amts):
    blob, off = _keys(keys)
    cap = 4 * w * d + 64
    out = C.create_string_buffer(cap)
    s = (C.c_int32 * max(1, len(seq)))(*seq)
    a = (C.c_int64 * max(1, len(seq)))(*amts)
    r = lib().ref_cms_write(w, d, blob, off, s, a, len(seq), C.cast(out, C.c_char_p), cap)
    return r, out.raw[:max(0, r)]


def expanding_write(n, p, nfilters, keys, seq, filt, total_adds):
    blob, off = _keys(keys)
    cap = 1 << 22
    out = C.create_string_buffer(cap)
    s = (C.c_int32 * max(1, len(seq)))(*seq)
    fl = (C.c_int32 * max(1, len(seq)))(*filt)
    r = lib().ref_expanding_write(n, p, nfilters, blob, off, s, fl, len(seq), total_adds,
                                  C.cast(out, C.c_char_p), cap)
    return r, out.raw[:max(0, r)]


def cuckoo_write(capacity, bucket_size, max_swaps, buckets, counting):
    fps, cnts, blen = [], [], []
    for b in buckets:
        blen.append(len(b))
        for e in b:
            if counting:
                fps.append(e[0])
                cnts.append(e[1])
            else:
                fps.append(e)
    n = max(1, len(fps))
    F = (C.c_uint32 * n)(*fps)
    Cn = (C.c_uint32 * n)(*cnts) if counting else None
    B = (C.c_uint32 * max(1, len(blen)))(*blen)
    cap = capacity * bucket_size * 8 + 64
    out = C.create_string_buffer(cap)
    r = lib().ref_cuckoo_write(capacity, bucket_size, max_swaps, F, Cn, B, C.cast(out, C.c_char_p), cap)
    return r, out.raw[:max(0, r)]


def cuckoo_check(raw, counting, fp_bits, key):
    return lib().ref_cuckoo_check(raw, len(raw), 1 if counting else 0, fp_bits, bytes(key), len(key))
