"""Core of the verification harness: case context, sharded Hypothesis runner, shrinking,
replay files, known-finding handling and evidence writing.

Design (see DESIGN.md section 2): a *case* is a JSON-serialisable dict produced by a Hypothesis
strategy (or by an exhaustive enumerator).  A check module's ``run_case(case, ctx)`` interprets it
against the real library and a reference model and calls ``ctx.check(oracle, cond, msg)``.  The
first failing oracle ends the case (like an assert) and is *recorded*, not raised into Hypothesis,
so one shallow failure does not stop the search; failures are bucketed by oracle name and each
bucket is shrunk with a delta-debugging pass over the case's operation list.
"""
import copy
import hashlib
import importlib
import json
import multiprocessing as mp
import os
import shutil
import sys
import tempfile
import time
import traceback
from collections import Counter

VERIF_DIR = os.path.dirname(os.path.dirname(os.path.abspath(__file__)))
REPO = os.path.realpath(os.environ.get("VERIF_REPO", "/repo"))
NSHARDS = int(os.environ.get("VERIF_SHARDS", "16"))
LAST_VERDICT = {}
# where evidence/ and replays/ are written; only the mutation runner points this elsewhere
OUT_DIR = os.environ.get("VERIF_OUT", VERIF_DIR)


class CaseFailed(Exception):
    def __init__(self, oracle, msg):
        super().__init__(f"{oracle}: {msg}")
        self.oracle = oracle
        self.msg = msg


class HarnessError(Exception):
    pass


class BuildAborted(Exception):
    """A library call that is NOT the subject of the property under test raised while a cross-structure check was building a
    state (soft mode): the case is abandoned and counted, never reported - the property that owns that call has its own check."""


def import_repo():
    """Put the repository under test first on sys.path and make sure that is what gets imported."""
    sys.dont_write_bytecode = True
    if REPO not in sys.path:
        sys.path.insert(0, REPO)
    import probables  # noqa

    got = os.path.realpath(probables.__file__)
    if not got.startswith(REPO + os.sep):
        raise HarnessError(f"probables imported from {got}, expected under {REPO}")
    return probables


def _is_lib_frame(filename):
    return os.path.realpath(filename).startswith(os.path.join(REPO, "probables") + os.sep)


def innermost_is_library(exc):
    """Blame assignment: walk the traceback from the innermost frame outwards, skipping frames
    that belong neither to the library under test nor to the harness (stdlib, builtins); the
    first remaining frame decides.  True = the library raised (or a stdlib routine it called)."""
    frames = []
    tb = exc.__traceback__
    while tb is not None:
        frames.append(tb.tb_frame.f_code.co_filename)
        tb = tb.tb_next
    callbacks = os.path.join(VERIF_DIR, "vlib", "gen.py")  # the hashing strategies handed to the library: user callbacks - an
    for fn in reversed(frames):                           # exception inside one is blamed on whoever CALLED it with that input
        if _is_lib_frame(fn):
            return True
        if os.path.realpath(fn) == callbacks:
            continue
        if os.path.realpath(fn).startswith(VERIF_DIR + os.sep):
            return False
    return False


def exc_brief(exc):
    tb = traceback.extract_tb(exc.__traceback__)
    where = ""
    for fr in reversed(tb):
        if _is_lib_frame(fr.filename):
            where = f" at {os.path.relpath(fr.filename, REPO)}:{fr.lineno}"
            break
    return f"{type(exc).__name__}: {str(exc)[:160]}{where}"


class Ctx:
    """Per-case context handed to run_case."""

    def __init__(self, prop, tier="quick", guards=(), want_trace=True, careful=False):
        self.prop = prop
        self.careful = careful  # replay / shrinking: drivers use their deterministic (slower) watchdogs
        self.soft_noexc = False  # True: failures of "<ID>.no_exception" abandon the case instead of being reported
        self.tier = tier
        self.guards = frozenset(guards)
        self.features = Counter()
        self.oracle_evals = Counter()
        self.excluded = Counter()
        self.nontrivial = False
        self.trace = []
        self.want_trace = want_trace
        self._tmpdirs = []
        self.notes = {}

    # ---- oracles -------------------------------------------------------------------------
    def check(self, oracle, cond, msg=""):
        self.oracle_evals[oracle] += 1
        if not cond:
            if self.soft_noexc and oracle.endswith(".no_exception"):
                raise BuildAborted(msg() if callable(msg) else msg)
            raise CaseFailed(oracle, msg() if callable(msg) else msg)
        return True

    def fail(self, oracle, msg=""):
        self.oracle_evals[oracle] += 1
        if self.soft_noexc and oracle.endswith(".no_exception"):
            raise BuildAborted(msg)
        raise CaseFailed(oracle, msg)

    def lib(self, oracle, fn, *args, allow=(), **kw):
        """Call into the library.  Returns ("ok", value) or ("exc", exception) when the exception
        type is in *allow*; any other exception is a failure of *oracle*."""
        try:
            return "ok", fn(*args, **kw)
        except CaseFailed:
            raise
        except allow as e:  # type: ignore[misc]
            return "exc", e
        except RecursionError as e:
            self.fail(oracle, "unexpected " + exc_brief(e))
        except Exception as e:  # noqa
            if innermost_is_library(e):
                self.fail(oracle, "unexpected " + exc_brief(e))
            raise

    def call(self, oracle, fn, *args, **kw):
        """Library call that must not raise at all."""
        return self.lib(oracle, fn, *args, **kw)[1]

    # ---- classification ------------------------------------------------------------------
    def feat(self, name, n=1):
        self.features[name] += n

    def nt(self, flag=True):
        if flag:
            self.nontrivial = True

    def op(self, *rec):
        if self.want_trace and len(self.trace) < 400:
            self.trace.append(list(rec))

    # ---- known findings ------------------------------------------------------------------
    def guard(self, kf_id):
        return kf_id in self.guards

    def exclude(self, kf_id):
        self.excluded[kf_id] += 1

    # ---- scratch space -------------------------------------------------------------------
    def tmpdir(self):
        d = tempfile.mkdtemp(prefix="verif-case-")
        self._tmpdirs.append(d)
        return d

    def cleanup(self):
        for d in self._tmpdirs:
            shutil.rmtree(d, ignore_errors=True)
        self._tmpdirs = []


def run_one(mod, case, tier="quick", guards=(), want_trace=True, careful=False):
    """Run one case. Returns (ctx, failure) where failure is None or (oracle, msg)."""
    ctx = Ctx(mod.ID, tier, guards, want_trace, careful)
    failure = None
    cwd = os.getcwd()
    try:
        mod.run_case(copy.deepcopy(case), ctx)
    except CaseFailed as e:
        failure = (e.oracle, e.msg)
    except BuildAborted:
        ctx.features["state_build_aborted_by_unrelated_exception"] += 1
        ctx.nontrivial = False
    except RecursionError as e:
        if ctx.soft_noexc:
            ctx.features["state_build_aborted_by_unrelated_exception"] += 1
            ctx.nontrivial = False
        else:
            failure = (mod.ID + ".no_exception", "unexpected " + exc_brief(e))
    except Exception as e:  # noqa
        if innermost_is_library(e):
            if ctx.soft_noexc:
                ctx.features["state_build_aborted_by_unrelated_exception"] += 1
                ctx.nontrivial = False
            else:
                failure = (mod.ID + ".no_exception", "unexpected " + exc_brief(e))
        else:
            raise
    finally:
        try:
            os.chdir(cwd)
        except OSError:
            pass
        ctx.cleanup()
    return ctx, failure


def case_digest(obj):
    return hashlib.sha1(json.dumps(obj, sort_keys=True, default=str).encode()).digest()[:10]


def case_size(case):
    ops = case.get("ops") if isinstance(case, dict) else None
    n = len(ops) if isinstance(ops, list) else 0
    return (n, len(json.dumps(case, default=str)))


class ShardStats:
    def __init__(self):
        self.evaluations = 0
        self.nt_digests = set()
        self.features = Counter()
        self.oracle_evals = Counter()
        self.excluded = Counter()
        self.samples = []
        self.failures = {}  # oracle -> (case, msg)
        self.slices = {}  # name -> count

    def add(self, case, ctx, failure, max_samples=2, slice_name=None):
        self.evaluations += 1
        self.features.update(ctx.features)
        self.oracle_evals.update(ctx.oracle_evals)
        self.excluded.update(ctx.excluded)
        if slice_name:
            self.slices[slice_name] = self.slices.get(slice_name, 0) + 1
        if ctx.nontrivial:
            d = case_digest(ctx.trace if (ctx.trace and ctx.want_trace) else case)
            if d not in self.nt_digests:
                self.nt_digests.add(d)
                if len(self.samples) < max_samples:
                    self.samples.append(
                        {"case": case, "trace": ctx.trace[:30], "features": dict(ctx.features)}
                    )
        if failure is not None:
            oracle, msg = failure
            old = self.failures.get(oracle)
            if old is None or case_size(case) < case_size(old[0]):
                self.failures[oracle] = (case, msg)

    def as_dict(self):
        return self.__dict__

    def merge(self, other):
        self.evaluations += other["evaluations"]
        self.nt_digests |= other["nt_digests"]
        self.features.update(other["features"])
        self.oracle_evals.update(other["oracle_evals"])
        self.excluded.update(other["excluded"])
        self.samples.extend(other["samples"])
        for k, v in other["slices"].items():
            self.slices[k] = self.slices.get(k, 0) + v
        for oracle, (case, msg) in other["failures"].items():
            old = self.failures.get(oracle)
            if old is None or case_size(case) < case_size(old[0]):
                self.failures[oracle] = (case, msg)


def load_module(prop_id):
    import_repo()
    if VERIF_DIR not in sys.path:
        sys.path.insert(0, VERIF_DIR)
    cdir = os.path.join(VERIF_DIR, "checks")
    for fn in sorted(os.listdir(cdir)):
        if fn.lower().startswith(prop_id.lower() + "_") and fn.endswith(".py"):
            return importlib.import_module("checks." + fn[:-3])
    raise HarnessError(f"no check module for {prop_id}")


def _install_cov(path):
    """optional line coverage of the library (tools/libcov.py): VERIF_COV=<dir> dumps executed (file, line) pairs per shard"""
    import atexit
    import threading

    seen = set()
    prefix = os.path.join(REPO, "probables") + os.sep

    def local(frame, event, arg):
        if event == "line":
            seen.add((frame.f_code.co_filename, frame.f_lineno))
        return local

    def glob(frame, event, arg):
        if frame.f_code.co_filename.startswith(prefix):
            seen.add((frame.f_code.co_filename, frame.f_lineno))
            return local
        return None

    sys.settrace(glob)
    threading.settrace(glob)
    return seen


def _shard_worker(args):
    prop_id, tier, seed, shard, nshards, n_cases, guards = args
    try:
        mod = load_module(prop_id)
        stats = ShardStats()
        cov = _install_cov(os.environ["VERIF_COV"]) if os.environ.get("VERIF_COV") else None
        # exhaustive slices: every shard enumerates, runs its residue class
        for name, factory in ([] if os.environ.get("VERIF_OPT_CHILD") else getattr(mod, "exhaustive", lambda t: [])(tier)):
            for i, case in enumerate(factory()):
                if i % nshards != shard:
                    continue
                ctx, failure = run_one(mod, case, tier, guards, want_trace=(i < 64 * nshards))
                stats.add(case, ctx, failure, slice_name=name)
        if n_cases > 0:
            import hypothesis
            from hypothesis import HealthCheck, Phase, given, settings

            strat = mod.strategy(tier)

            @hypothesis.seed(seed * 64 + shard)
            @settings(
                max_examples=n_cases,
                database=None,
                deadline=None,
                derandomize=False,
                phases=[Phase.generate],
                report_multiple_bugs=False,
                suppress_health_check=[HealthCheck.too_slow, HealthCheck.data_too_large,
                                       HealthCheck.large_base_example],
            )
            @given(strat)
            def drive(case):
                ctx, failure = run_one(mod, case, tier, guards)
                stats.add(case, ctx, failure)

            drive()
        if cov is not None:
            sys.settrace(None)
            os.makedirs(os.environ["VERIF_COV"], exist_ok=True)
            with open(os.path.join(os.environ["VERIF_COV"], "%s-%d.json" % (prop_id, shard)), "w") as f:
                json.dump(sorted(cov), f)
        return ("ok", stats.as_dict())
    except BaseException as e:  # noqa
        return ("err", f"shard {shard}: {type(e).__name__}: {e}\n{traceback.format_exc()}")


# ------------------------------------------------------------------------------------------
# shrinking (delta debugging over case["ops"], then module-provided simplifications)
# ------------------------------------------------------------------------------------------

def shrink(mod, case, oracle, tier, guards, budget=1500):
    def fails(c):
        try:
            _, f = run_one(mod, c, tier, guards, want_trace=False, careful=True)
        except Exception:  # a shrunk case that breaks the harness is not a reproduction
            return False
        return f is not None and f[0] == oracle

    runs = [0]
    t_end = time.time() + float(os.environ.get("VERIF_SHRINK_SECONDS", "90"))

    def test(c):
        # shrinking is best effort: bounded by runs AND by wall time (a hanging mutant makes every trial expensive); running out of
        # either just means the replay file is less minimal, it never changes the verdict
        runs[0] += 1
        return runs[0] <= budget and time.time() < t_end and fails(c)

    best = copy.deepcopy(case)
    if not fails(best):
        return best  # not deterministic?! keep as is
    for key in [k for k, v in best.items() if isinstance(v, list) and k.startswith("ops")]:
        ops = best[key]
        n = 2
        while len(ops) >= 1 and runs[0] < budget:
            chunk = max(1, len(ops) // n)
            removed = False
            i = 0
            while i < len(ops):
                cand = ops[:i] + ops[i + chunk:]
                trial = dict(best)
                trial[key] = cand
                if test(trial):
                    ops = cand
                    best = trial
                    removed = True
                else:
                    i += chunk
            if not removed:
                if chunk == 1:
                    break
                n = min(len(ops), n * 2)
            else:
                n = max(2, n - 1)
    hints = getattr(mod, "shrink_hints", None)
    if hints is not None:
        progress = True
        while progress and runs[0] < budget:
            progress = False
            for cand in hints(copy.deepcopy(best)):
                if case_size(cand) <= case_size(best) and cand != best and test(cand):
                    best = cand
                    progress = True
                    break
    return best


# ------------------------------------------------------------------------------------------
# known findings
# ------------------------------------------------------------------------------------------

def load_known_findings(prop_id):
    """Parse KNOWN_FINDINGS.txt.  Lines:
    open:  property=C03 id=<kf-id> replay=regress/<file>.json :: <what fails>
    fixed: property=C04 <commit> <what failed>
    Returns list of dicts for *open* entries of this property."""
    path = os.path.join(VERIF_DIR, "KNOWN_FINDINGS.txt")
    out = []
    if not os.path.exists(path):
        return out
    for line in open(path, encoding="utf-8"):
        line = line.strip()
        if not line.startswith("open:"):
            continue
        head, _, what = line[5:].partition("::")
        fields = dict(tok.split("=", 1) for tok in head.split() if "=" in tok)
        if fields.get("property") != prop_id:
            continue
        out.append({"id": fields["id"], "replay": fields.get("replay"), "what": what.strip()})
    return out


def read_replay(path):
    if not os.path.isabs(path):
        path = os.path.join(VERIF_DIR, path)
    with open(path, encoding="utf-8") as f:
        return json.load(f)


def write_replay(prop_id, oracle, case, msg):
    d = os.path.join(OUT_DIR, "replays")
    os.makedirs(d, exist_ok=True)
    h = hashlib.sha1(json.dumps(case, sort_keys=True, default=str).encode()).hexdigest()[:10]
    rel = os.path.join("replays", f"{prop_id}-{oracle.split('.', 1)[-1]}-{h}.json")
    with open(os.path.join(OUT_DIR, rel), "w", encoding="utf-8") as f:
        json.dump({"property": prop_id, "oracle": oracle, "message": msg, "case": case,
                   "expect": "fail"}, f, indent=1, sort_keys=True, default=str)
    return rel


def repo_state():
    import subprocess

    try:
        head = subprocess.run(["git", "-C", REPO, "rev-parse", "HEAD"], capture_output=True,
                              text=True, timeout=20).stdout.strip()
        diff = subprocess.run(["git", "-C", REPO, "diff", "HEAD", "--", "probables"],
                              capture_output=True, timeout=20).stdout
        return head, (hashlib.sha1(diff).hexdigest()[:12] if diff else "clean")
    except Exception:  # noqa
        return "unknown", "unknown"


# ------------------------------------------------------------------------------------------
# top level
# ------------------------------------------------------------------------------------------

def run_check(prop_id, tier, seed, replay=None):
    t0 = time.time()
    mod = load_module(prop_id)
    if hasattr(mod, "prepare"):
        mod.prepare()  # e.g. build the C reference once, before forking
    open_kf = load_known_findings(prop_id)

    # -- replay mode -----------------------------------------------------------------------
    if replay is not None:
        rp = read_replay(replay)
        if rp.get("optimize") and sys.flags.optimize == 0:
            import subprocess
            r = subprocess.run([sys.executable, "-O", "-B", "-m", "vlib.main", prop_id, "--tier", tier, "--replay", replay],
                               cwd=VERIF_DIR, env=dict(os.environ, PYTHONOPTIMIZE="1"))
            return r.returncode
        ctx, failure = run_one(mod, rp["case"], tier, guards=(), careful=True)
        if failure is None:
            print(f"REPLAY property={prop_id} file={replay}: passes (no oracle fails)")
            return 0
        print(f"REPLAY property={prop_id} file={replay}: FAILS oracle={failure[0]} :: {failure[1]}")
        print(f"VIOLATION property={prop_id} replay={replay}")
        return 1

    violations = []  # (oracle, replay path, msg)
    known_lines = []
    guards = set()

    # -- known findings: replay each, decide whether its guard is active ----------------------
    for kf in open_kf:
        still = True
        if kf["replay"]:
            rp = read_replay(kf["replay"])
            _, failure = run_one(mod, rp["case"], tier, guards=(), careful=True)
            still = failure is not None
        if still:
            guards.add(kf["id"])
            known_lines.append(f"KNOWN-FINDING: property={prop_id} {kf['id']}: {kf['what']}")
        else:
            print(f"note: known finding {kf['id']} no longer reproduces; its guard is off")
    for line in known_lines:
        print(line)
    guards = tuple(sorted(guards))

    # -- regression tier -------------------------------------------------------------------
    regress_n = 0
    rdir = os.path.join(VERIF_DIR, "regress")
    kf_replays = {os.path.normpath(k["replay"]) for k in open_kf if k["replay"]}
    if os.path.isdir(rdir):
        for fn in sorted(os.listdir(rdir)):
            if not (fn.startswith(prop_id + "-") and fn.endswith(".json")):
                continue
            rel = os.path.join("regress", fn)
            if os.path.normpath(rel) in kf_replays:
                continue
            rp = read_replay(rel)
            _, failure = run_one(mod, rp["case"], tier, guards, careful=True)
            regress_n += 1
            if failure is not None:
                violations.append((failure[0], rel, failure[1]))

    # -- generated search ------------------------------------------------------------------
    budget = mod.budget(tier)
    n_cases = int(budget.get("cases", 0))
    if os.environ.get("VERIF_CASES"):
        n_cases = int(os.environ["VERIF_CASES"])
    nshards = NSHARDS
    per = (n_cases + nshards - 1) // nshards if n_cases else 0
    jobs = [(prop_id, tier, seed, s, nshards, per, guards) for s in range(nshards)]
    total = ShardStats()
    if nshards == 1:
        results = [_shard_worker(jobs[0])]
    else:
        ctxm = mp.get_context("fork")
        with ctxm.Pool(nshards, maxtasksperchild=1) as pool:
            results = pool.map(_shard_worker, jobs, chunksize=1)
    for status, payload in results:
        if status != "ok":
            raise HarnessError(payload)
        total.merge(payload)

    extra = getattr(mod, "extra_phase", None)
    extra_info = {}
    if extra is not None:
        extra_info = extra(tier, seed, guards, total, violations) or {}

    # -- the same search once more with assertions stripped (python -O) ----------------------------
    # A share of the random cases is repeated in a child interpreter started with -O: the library must behave the same when its
    # assert statements are compiled away (an assert with a side effect is the classic way to break that).  Only when the normal
    # run found nothing, never recursively, not for the exhaustive slices.
    if not total.failures and not violations and not os.environ.get("VERIF_OPT_CHILD") and n_cases and not os.environ.get("VERIF_NO_OPT"):
        extra_info = dict(extra_info, **_optimized_child(prop_id, tier, seed, max(nshards, n_cases // 8), violations))

    # -- shrink & report -------------------------------------------------------------------
    for oracle in sorted(total.failures):
        case, msg = total.failures[oracle]
        small = shrink(mod, case, oracle, tier, guards)
        _, f = run_one(mod, small, tier, guards, careful=True)
        if f is not None:
            msg = f[1]
        rel = write_replay(prop_id, oracle, small, msg)
        violations.append((oracle, rel, msg))

    wall = time.time() - t0
    write_evidence(mod, tier, seed, total, violations, known_lines, guards, regress_n, wall,
                   extra_info)
    LAST_VERDICT["violations"] = len(violations)
    print(f"{prop_id} tier={tier} seed={seed}: {total.evaluations} cases, "
          f"{len(total.nt_digests)} distinct non-trivial, regress={regress_n}, "
          f"oracle evaluations={sum(total.oracle_evals.values())}, wall={wall:.1f}s")
    if violations:
        for oracle, rel, msg in violations:
            print(f"  failing oracle {oracle}: {msg}")
            print(f"VIOLATION property={prop_id} replay={rel}")
        return 1
    return 0


def _optimized_child(prop_id, tier, seed, n_cases, violations):
    import shutil
    import subprocess

    sub = os.path.join(OUT_DIR, "optimized-run")
    shutil.rmtree(sub, ignore_errors=True)
    env = dict(os.environ, VERIF_OPT_CHILD="1", VERIF_CASES=str(n_cases), VERIF_OUT=sub, VERIF_SEED=str(seed), PYTHONOPTIMIZE="1")
    r = subprocess.run([sys.executable, "-O", "-B", "-m", "vlib.main", prop_id, "--tier", tier], cwd=VERIF_DIR, env=env,
                       capture_output=True, text=True)
    info = {"optimized_interpreter_cases": n_cases, "optimized_interpreter_exit": r.returncode}
    if r.returncode == 1:
        msgs = [ln.strip()[len("failing oracle "):] for ln in r.stdout.splitlines() if ln.strip().startswith("failing oracle ")]
        reps = [ln.split("replay=", 1)[1].strip() for ln in r.stdout.splitlines() if ln.startswith("VIOLATION ")]
        for i, rel in enumerate(reps):
            src = os.path.join(sub, rel)
            dst_rel = os.path.join("replays", os.path.basename(rel)[:-5] + "-optimized.json")
            os.makedirs(os.path.join(OUT_DIR, "replays"), exist_ok=True)
            try:
                rp = json.load(open(src, encoding="utf-8"))
                rp["optimize"] = True  # --replay re-runs it under python -O
                json.dump(rp, open(os.path.join(OUT_DIR, dst_rel), "w", encoding="utf-8"), indent=1, sort_keys=True)
            except Exception:  # noqa
                dst_rel = rel
            m = msgs[i] if i < len(msgs) else "failure under python -O"
            oracle, _, text = m.partition(": ")
            violations.append((oracle, dst_rel, "(only with assertions stripped, python -O) " + text))
    elif r.returncode != 0:
        raise HarnessError("optimized (-O) child run failed: " + (r.stderr or r.stdout)[-600:])
    shutil.rmtree(sub, ignore_errors=True)
    return info


def write_evidence(mod, tier, seed, total, violations, known_lines, guards, regress_n, wall,
                   extra_info):
    import hypothesis

    head, dirty = repo_state()
    samples = total.samples[:5]
    exhaustive_slices = {k: v for k, v in total.slices.items()}
    cov = {
        "evaluations": total.evaluations + regress_n,
        "distinct_nontrivial": len(total.nt_digests),
        "rule": mod.RULE,
        "samples": samples,
        "class_histogram": dict(sorted(total.features.items())),
        "oracle_evaluations": dict(sorted(total.oracle_evals.items())),
        "oracles": getattr(mod, "ORACLES", {}),
        "excluded_by_known_finding": dict(total.excluded),
        "active_known_finding_guards": list(guards),
        "known_findings_reported": known_lines,
        "regression_cases_replayed": regress_n,
        "exhaustive_slices": exhaustive_slices,
        "exhaustive": False,
        "generated_cases": total.evaluations - sum(exhaustive_slices.values()),
        "shards": NSHARDS,
        "repo_head": head,
        "repo_dirty_sha": dirty,
        "engine_versions": {"hypothesis": hypothesis.__version__,
                            "python": sys.version.split()[0]},
        "violating_oracles": sorted({v[0] for v in violations}),
    }
    cov.update(extra_info)
    ev = {
        "property_id": mod.ID,
        "tier": tier,
        "seed": seed,
        "level": getattr(mod, "LEVEL", "exploration"),
        "coverage": cov,
        "assumptions": list(getattr(mod, "ASSUMPTIONS", [])),
        "wall_s": round(wall, 2),
        "violations": len(violations),
    }
    d = os.path.join(OUT_DIR, "evidence")
    os.makedirs(d, exist_ok=True)
    tmp = os.path.join(d, f".{mod.ID}.json.tmp")
    with open(tmp, "w", encoding="utf-8") as f:
        json.dump(ev, f, indent=1, default=str)
    os.replace(tmp, os.path.join(d, f"{mod.ID}.json"))
