"""Shared generators: key universe, hash strategies, geometries (DESIGN.md 2.7).

Everything a strategy returns is JSON-serialisable; keys are encoded as "s:<text>" or "b:<hex>"
and hash strategies are referred to by name and resolved with hash_by_name()."""
import hashlib
import struct

from hypothesis import strategies as st

M64 = (1 << 64) - 1

# ------------------------------------------------------------------------------------------
# keys
# ------------------------------------------------------------------------------------------


def dk(k):
    """decode an encoded key"""
    if k.startswith("s:"):
        return k[2:]
    return bytes.fromhex(k[2:])


def ek(key):
    if isinstance(key, str):
        return "s:" + key
    return "b:" + bytes(key).hex()


def kbytes(key):
    """the byte string the default hash sees for ASCII text / the utf-8 form of a text key"""
    return key.encode("utf-8") if isinstance(key, str) else bytes(key)


_text = st.one_of(
    st.text(alphabet="abcxyz019 _-", max_size=6),
    st.text(alphabet=st.characters(min_codepoint=0x20, max_codepoint=0xFF), max_size=4),
    st.text(alphabet=st.characters(blacklist_categories=("Cs",), max_codepoint=0xFFFF), max_size=4),
    st.text(alphabet=st.characters(blacklist_categories=("Cs",), min_codepoint=0x10000), max_size=2),
    st.sampled_from(["", "a", "test", "this is a test", "foobar"]),
    st.text(alphabet=st.characters(blacklist_categories=("Cs",), max_codepoint=0x2FFF), min_size=40, max_size=300),
)
_ascii = st.one_of(st.text(alphabet=st.characters(min_codepoint=0x20, max_codepoint=0x7E), max_size=8),
                   st.text(alphabet=st.characters(min_codepoint=0x20, max_codepoint=0x7E), max_size=8),
                   st.text(alphabet=st.characters(min_codepoint=0x01, max_codepoint=0x7F), min_size=30, max_size=200))
_bytes = st.one_of(st.binary(max_size=6), st.binary(max_size=6), st.sampled_from([b"", b"\x00", b"\xff", b"a", b"foobar"]),
                   st.binary(min_size=40, max_size=300))


def key_st(kind="any"):
    if kind == "ascii":  # keys the C reference can hash identically (str == its ASCII bytes)
        return st.one_of(_ascii.map(ek), _bytes.map(ek))
    if kind == "text":
        return _text.map(ek)
    return st.one_of(_text.map(ek), _bytes.map(ek))


def _with_twins(pool, sel):
    """sometimes put a text key and its exact UTF-8 bytes twin (or a bytes key and its text decoding) into the same pool: under the
    md5/sha256 strategies they are the same element, under FNV-1a only when ASCII - a cache or table keyed the wrong way shows here"""
    if sel % 3:
        return pool
    out = list(pool)
    for k in pool[: 1 + sel % 4]:
        key = dk(k)
        if isinstance(key, str):
            t = ek(key.encode("utf-8"))
        else:
            try:
                t = ek(key.decode("utf-8"))
            except UnicodeDecodeError:
                continue
        if t not in out:
            out.append(t)
    return out


def pool_st(lo=2, hi=10, kind="any"):
    base = st.lists(key_st(kind), min_size=lo, max_size=hi, unique=True)
    if kind == "ascii":
        return base
    return st.tuples(base, st.integers(0, 11)).map(lambda t: _with_twins(t[0], t[1]))


# ------------------------------------------------------------------------------------------
# hash strategies hf(key, depth) -> list[int]   (Bloom family, count-min family)
# ------------------------------------------------------------------------------------------


def _fnv64(data, basis=14695981039346656037):
    h = basis & M64
    for b in data:
        h ^= b
        h = (h * 1099511628211) & M64
    return h


def _as_bytes(key):
    return key.encode("utf-8") if isinstance(key, str) else bytes(key)


def _h_salted(key, depth=1):
    kb = _as_bytes(key)
    return [_fnv64(kb, 14695981039346656037 + 977 * i + 3) for i in range(depth)]


def _h_coincide(key, depth=1):
    """all positions identical (tests/utilities.different_hash does the same)"""
    v = _fnv64(_as_bytes(key), 14695981039346656074)
    return [v for _ in range(depth)]


def _h_bylen(key, depth=1):
    """constant per key length: many keys collide completely"""
    n = len(_as_bytes(key))
    return [(n * 1000003 + 17 * i) & M64 for i in range(depth)]


def _h_ident(key, depth=1):
    """identity-like: small keys select chosen, neighbouring cells"""
    v = int.from_bytes(_as_bytes(key)[:8], "little")
    return [(v + 3 * i) & M64 for i in range(depth)]


def _h_pairs(key, depth=1):
    """positions coincide in pairs (0,1), (2,3), ..."""
    kb = _as_bytes(key)
    return [_fnv64(kb, 1469598103934665603 + 31 * (i // 2)) for i in range(depth)]


def _h_wide(key, depth=1):
    """160-bit values (a user hashing with sha1 and not reducing mod 2^64): Python ints of any size are valid hash values"""
    kb = _as_bytes(key)
    return [int.from_bytes(hashlib.sha1(kb + bytes([i % 251])).digest(), "big") for i in range(depth)]


def _h_signed(key, depth=1):
    """signed 64-bit values (crc / mmh3-style hashes return negative numbers)"""
    kb = _as_bytes(key)
    return [_fnv64(kb, 1469598103934665603 + 131 * i) - (1 << 63) for i in range(depth)]


def _h_fnv_first(key, depth=1):
    """agrees with the default strategy on the FIRST value only (a compatibility probe that looks at one hash cannot tell them apart)"""
    from probables.hashes import fnv_1a
    kb = _as_bytes(key)
    return [fnv_1a(key, 0)] + [_fnv64(kb, 14695981039346656037 + 977 * i + 3) for i in range(1, depth)]


def _h_fixed8(key, depth=1):
    """one digest cut into eight 64-bit words whatever the depth (more for deeper requests): a list LONGER than the filter needs.
    Only for the plain / on-disk Bloom filters, which read the first number_hashes entries"""
    kb = _as_bytes(key)
    out = []
    i = 0
    while len(out) < max(8, depth):
        dg = hashlib.sha512(kb + bytes([i])).digest()
        out.extend(int.from_bytes(dg[j:j + 8], "big") for j in range(0, 64, 8))
        i += 1
    return out[:max(8, depth)]


def _h_depthdep(key, depth=1):
    """a hand-written strategy whose VALUES depend on the requested depth (one digest cut into `depth` slices): not prefix-stable -
    nothing requires that of a user's strategy, every structure always asks with its own fixed depth"""
    kb = _as_bytes(key)
    dg = hashlib.sha512(kb + bytes([depth % 251])).digest()
    while len(dg) < 8 * depth:
        dg += hashlib.sha512(dg).digest()
    return [int.from_bytes(dg[8 * i: 8 * i + 8], "big") for i in range(depth)]


def _h_tiny(key, depth=1):
    """values in 0..3 only: everything collides in any geometry"""
    kb = _as_bytes(key)
    return [(_fnv64(kb) >> (2 * (i % 16))) & 3 for i in range(depth)]


class FalsyCallable:
    """a perfectly good hashing strategy that happens to be a FALSY object (a callable with __bool__/__len__, e.g. a memoising
    mapping that is still empty): the library must use the strategy it is given, whatever its truth value"""

    def __init__(self, f):
        self.f = f

    def __call__(self, *a, **kw):
        return self.f(*a, **kw)

    def __bool__(self):
        return False

    def __len__(self):
        return 0


_CACHE = {}


def hash_by_name(name):
    """resolve a depth-style hash strategy name to a callable (None = library default)"""
    if name in _CACHE:
        return _CACHE[name]
    from probables import hashes as H

    if name == "default":
        f = None
    elif name == "fnv":
        f = H.default_fnv_1a
    elif name == "md5":
        f = H.default_md5
    elif name == "sha256":
        f = H.default_sha256
    elif name == "dec_int":
        @H.hash_with_depth_int
        def f(key, seed=0):  # README example, made to accept bytes as well
            kb = _as_bytes(key)
            val = int(hashlib.sha512(kb).hexdigest(), 16) + seed
            return val % (1 << 64)
    elif name == "dec_bytes":
        @H.hash_with_depth_bytes
        def f(key, depth):
            return hashlib.blake2b(key, digest_size=16, salt=struct.pack("<Q", depth)).digest()
    elif name == "salted":
        f = _h_salted
    elif name == "coincide":
        f = _h_coincide
    elif name == "bylen":
        f = _h_bylen
    elif name == "ident":
        f = _h_ident
    elif name == "pairs":
        f = _h_pairs
    elif name == "tiny":
        f = _h_tiny
    elif name == "fixed8":
        f = _h_fixed8
    elif name == "depthdep":
        f = _h_depthdep
    elif name == "textonly":  # only for pools of text keys (C12 / C13)
        f = H.hash_with_depth_int(_h_textonly_seed)
    elif name == "falsy_salted":
        f = FalsyCallable(_h_salted)
    elif name == "fnv_first":
        f = _h_fnv_first
    elif name == "dec_fnv":  # hash_with_depth_int(fnv_1a): first value equals the default strategy's, the chain differs
        f = H.hash_with_depth_int(H.fnv_1a)
    elif name == "wide":
        f = _h_wide
    elif name == "signed":
        f = _h_signed
    else:
        raise ValueError(name)
    _CACHE[name] = f
    return f


def fresh_hash(name):
    """the named strategy as a NEW function object (a closure created per call, as user code that builds its strategy inside a
    function does): objects of earlier cases have been garbage-collected by then and their addresses are reused"""
    f = hash_by_name(name)
    if f is None or isinstance(f, FalsyCallable):
        return f

    def strategy(key, depth=1, _f=f):
        return _f(key, depth)
    return strategy


def _h_textonly_seed(key, seed=0):
    # the README's custom-hash example exactly as printed: text keys only (bytes have no .encode)
    val = int(hashlib.sha512(key.encode("utf-8")).hexdigest(), 16) + seed
    return val % (1 << 64)


GOOD_HASHES = ["default", "fnv", "md5", "sha256", "dec_int", "dec_bytes", "salted", "wide", "signed", "fnv_first", "dec_fnv", "falsy_salted", "depthdep"]
DEGENERATE_HASHES = ["coincide", "bylen", "ident", "pairs", "tiny"]
ALL_HASHES = GOOD_HASHES + DEGENERATE_HASHES


def hash_name_st(names=None):
    names = names or ALL_HASHES
    return st.sampled_from(names)


# ------------------------------------------------------------------------------------------
# simple hash functions hf(key) -> int  (cuckoo) and hf(key, 0) -> int (quotient filter)
# ------------------------------------------------------------------------------------------


def simple_hash_by_name(name):
    key = "simple:" + name
    if key in _CACHE:
        return _CACHE[key]
    if name == "default":
        f = None
    elif name == "narrow":  # few distinct values incl. 0 -> equal fingerprints for different keys
        def f(key, *a):
            return _fnv64(_as_bytes(key)) % 6
    elif name == "narrow16":
        def f(key, *a):
            return (_fnv64(_as_bytes(key)) % 13) * 256 + (_fnv64(_as_bytes(key), 99) % 3)
    elif name == "clustered":  # ~24 distinct fingerprints whose candidate buckets concentrate on 0..2: buckets overflow into the
        def f(key, *a):        # alternate bucket, which then holds several entries
            kb = _as_bytes(key)
            return (_fnv64(kb) % 8) * 64 + (_fnv64(kb, 7) % 3)
    elif name == "sha":
        def f(key, *a):
            return int.from_bytes(hashlib.sha256(_as_bytes(key)).digest()[:8], "big")
    elif name == "falsy_sha":
        f = FalsyCallable(simple_hash_by_name("sha"))
    elif name == "edges":  # values on the edges of the 32 / 64-bit ranges (every one a valid hash value)
        def f(key, *a):
            E = [0, 2 ** 64 - 1, 2 ** 63, 2 ** 63 - 1, 2 ** 32 - 1, 2 ** 32, 1, 2 ** 64 - 2, 0xFFFFFFFF00000000, 255, 256, 65535, 65536]
            return E[hashlib.sha256(_as_bytes(key)).digest()[0] % len(E)]
    else:
        raise ValueError(name)
    _CACHE[key] = f
    return f


# ------------------------------------------------------------------------------------------
# geometries
# ------------------------------------------------------------------------------------------

AWKWARD_FPR = [0.5, 0.7071, 0.25, 0.125, 0.0625, 0.05, 0.01, 0.001, 0.1, 0.2, 0.3, 0.9, 0.99,
               0.6, 0.4, 1e-5, 1e-9, 0.05000000074505806, 0.33, 0.75]


def fpr_st(max_u=44.0):
    return st.one_of(
        st.sampled_from(AWKWARD_FPR),
        st.floats(0.16, 6.0).map(lambda u: 10 ** -u),
        st.floats(0.16, max_u).map(lambda u: 10 ** -u),
        st.integers(1, 1999).map(lambda i: i / 2000),
        # rates whose optimal hash count -log2(p) is an integer or sits exactly half-way between two: the rounding of the hash count
        # (and the float32 form of the rate the file stores) decides which one every reader of the file must derive again
        st.integers(1, 40).map(lambda j: 2.0 ** (-j / 2)),
    )


def est_st(big=300):
    return st.one_of(st.integers(1, 8), st.integers(1, 20), st.integers(1, 60), st.integers(1, big))


def bloom_geom_st(big=300, max_u=44.0):
    return st.tuples(est_st(big), fpr_st(max_u))


def bloom_params_c(n, p):
    """(p32, m, k) computed the way the C original does; raises ValueError if unusable"""
    import math

    p32 = struct.unpack("f", struct.pack("f", float(p)))[0]
    if not (n > 0 and 0.0 < p32 < 1.0):
        raise ValueError("unusable")
    m = math.ceil((-n * math.log(p32)) / 0.4804530139182)
    k = int(round(0.6931471805599453 * m / n))
    if k == 0 or m == 0:
        raise ValueError("unusable")
    return p32, m, k
