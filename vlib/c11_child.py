"""Child process of the C11 'normal exit' variant: replays an on-disk history in a FRESH interpreter and exits normally, so
that finalizers and atexit handlers run - the parent then inspects the file that is left behind.

usage: python -B vlib/c11_child.py <case.json>      (VERIF_REPO selects the tree)
The case: {"est", "fpr", "hash", "pool", "path", "ops": [["add", ki], ["reopen"], ["drop"], ["clear"], ["setcount", v]]}
"drop" abandons the filter object WITHOUT close() (del + gc), which the library documents as handled by __del__, and opens the
file again; the last object is closed properly.
"""
import gc
import json
import os
import sys

sys.dont_write_bytecode = True
sys.path.insert(0, os.environ.get("VERIF_REPO", "/repo"))
sys.path.insert(1, os.path.dirname(os.path.dirname(os.path.abspath(__file__))))


def main():
    from probables import BloomFilterOnDisk
    from vlib.gen import dk, hash_by_name

    case = json.load(open(sys.argv[1]))
    hf = hash_by_name(case["hash"])
    pool = [dk(k) for k in case["pool"]]
    path = case["path"]
    o = BloomFilterOnDisk(path, case["est"], case["fpr"], hash_function=hf)
    for op in case["ops"]:
        if op[0] == "add":
            o.add(pool[op[1] % len(pool)])
        elif op[0] == "reopen":
            o.close()
            o = BloomFilterOnDisk(path, hash_function=hf)
        elif op[0] == "drop":
            del o
            gc.collect()
            o = BloomFilterOnDisk(path, hash_function=hf)
        elif op[0] == "clear":
            o.clear()
        elif op[0] == "setcount":
            o.elements_added = op[1]
    o.close()
    return 0


if __name__ == "__main__":
    sys.exit(main())
