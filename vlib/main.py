"""CLI: python -m vlib.main <ID> [--tier quick|thorough] [--replay file]"""
import argparse
import os
import sys
import traceback

from . import core


def main(argv=None):
    ap = argparse.ArgumentParser()
    ap.add_argument("prop")
    ap.add_argument("--tier", choices=["quick", "thorough"], default=None)
    ap.add_argument("--replay", default=None)
    a = ap.parse_args(argv)
    tier = a.tier or os.environ.get("VERIF_TIER") or "quick"
    if tier not in ("quick", "thorough"):
        tier = "quick"
    try:
        seed = int(os.environ.get("VERIF_SEED", "1"))
    except ValueError:
        seed = 1
    seed = abs(seed) % (2 ** 40)
    try:
        rc = core.run_check(a.prop.upper(), tier, seed, a.replay)
    except BrokenPipeError:  # the reader of our stdout went away; the verdict is in the evidence file
        try:
            sys.stdout = open(os.devnull, "w")
        except OSError:
            pass
        return 1 if core.LAST_VERDICT.get("violations") else 0
    except core.HarnessError as e:
        print(f"HARNESS-ERROR property={a.prop}: {e}", file=sys.stderr)
        return 2
    except Exception:  # noqa
        print(f"HARNESS-ERROR property={a.prop}:\n{traceback.format_exc()}", file=sys.stderr)
        return 2
    return rc


if __name__ == "__main__":
    sys.exit(main())
