"""C16 - counters saturate at their integer limits instead of wrapping or failing."""
import itertools

from hypothesis import strategies as st

from vlib import gen
from vlib.gen import dk, hash_by_name

ID = "C16"
LEVEL = "exploration"
I32MAX, I32MIN = 2 ** 31 - 1, -2 ** 31
U32MAX = 2 ** 32 - 1
I64MAX, I64MIN = 2 ** 63 - 1, -2 ** 63
U64MAX = 2 ** 64 - 1
ORACLES = {
    "C16.no_exception": "every add / remove / union / intersection / join / export / load returns normally (any exception is a violation)",
    "C16.cms_cells": "count-min: after add/remove every cell equals the clamping model (min(c+n, 2^31-1) / max(c-n, -2^31)), the element "
                     "total equals clamp64 of the running sum, the return value equals the smallest of the key's cells (the limit when "
                     "pinned) and equals check(key)",
    "C16.cms_join": "count-min join: every cell is clamp32(a+b), or the pinned limit when an operand cell already sits at a limit; total is "
                    "clamp64(a+b); the argument is unchanged",
    "C16.cb_cells": "counting Bloom: add pins each touched cell at min(c + n, 2^32-1) per occurrence of the position; a cell at 2^32-1 is never "
                    "decremented again; legitimate removes subtract from unpinned cells only; element total pins at 2^64-1; the add return "
                    "value is the limit when the key's smallest cell is pinned and equals check(key) when its positions are distinct",
    "C16.cb_setops": "counting Bloom union cell == min(a+b, 2^32-1); intersection cell == min(a+b, 2^32-1) where both are non-zero, else 0",
    "C16.export": "after every step bytes() succeeds and frombytes(bytes()) re-exports identically",
}
RULE = ("Short histories (<= 8 ops) on tiny structures: CountMinSketch (width 1..3, depth 1..3, all three query types) and CountingBloomFilter "
        "(est 1..5, hash strategies incl. ones whose positions coincide within a key), 2-3 keys, amounts from {1, 2, limit/2, limit/2+1, "
        "limit-1, limit, limit+1, 2^31, 2^32, 2^63, 2^64+5}; ops add, remove (count-min: may exceed the true count - that is how -2^31 is "
        "reached; counting Bloom: legitimate amounts only), join/union/intersection with a second structure built from its own generated "
        "history. Exhaustive slice: 2 keys x 8 amounts x {add, remove} histories of length <= L on both structure types (L=2 quick, 3 "
        "thorough). Non-trivial = some cell or total reached or crossed a limit during the history. Distinct by resolved history.")
ASSUMPTIONS = ["limits are reached with single huge amounts, not with 2^31 unit additions",
               "count-min join with an operand cell already at a limit: both 'sticky' and 'recomputed' results are accepted (the statement "
               "does not choose)", "counting-Bloom element total is only asserted on add (pin at 2^64-1) and on removes that touch no pinned cell"]
MANIFEST = {
    "technique": "model-based property testing with boundary-value amount generation against a clamping-arithmetic cell model; exhaustive "
                 "short histories",
    "level_text": "Exploration of short histories that drive cells to, across and back from the limits, with hash strategies whose positions "
                  "coincide; each cell of the exported array is compared with a clamping model after every step and the export is "
                  "round-tripped.",
    "level_note": "Trusted: the clamping model in checks/c16_saturation.py (cell addressing recomputed from the hash strategy).",
}

CMS_AMTS = [1, 2, I32MAX // 2, I32MAX // 2 + 1, I32MAX - 1, I32MAX, I32MAX + 1, 2 ** 32, 2 ** 63, 2 ** 64 + 5]
CB_AMTS = [1, 2, U32MAX // 2, U32MAX // 2 + 1, U32MAX - 1, U32MAX, U32MAX + 1, 2 ** 31, 2 ** 63, 2 ** 64 + 5]


def budget(tier):
    return {"cases": 16 * 300 if tier == "quick" else 16 * 6000}


def strategy(tier):
    ki = st.integers(0, 2)

    def hist(amts, setop_names):
        amt = st.sampled_from(amts)
        sub = st.lists(st.tuples(st.sampled_from(["add", "remove"]), ki, amt), max_size=3).map(lambda l: [list(x) for x in l])
        op = st.one_of(st.tuples(st.just("add"), ki, amt), st.tuples(st.just("add"), ki, amt),
                       st.tuples(st.just("remove"), ki, amt), st.tuples(st.just("pin_release"), ki, amt),
                       st.tuples(st.just("freeze"), ki, ki),
                       st.tuples(st.sampled_from(setop_names), sub))
        return st.lists(op, min_size=1, max_size=8).map(lambda l: [list(x) for x in l])

    cms = st.fixed_dictionaries({"t": st.just("cms"), "w": st.integers(1, 3), "d": st.integers(1, 3),
                                 "qt": st.sampled_from(["min", "min", "mean", "mean-min"]),
                                 "hash": gen.hash_name_st(["default", "md5", "coincide", "tiny", "ident"]),
                                 "pool": gen.pool_st(2, 3), "ops": hist(CMS_AMTS, ["join"]),
                                 # the tracking subclasses route add / remove through their own overrides: same clamping
                                 "cmscls": st.sampled_from(["cms", "cms", "st", "hh"])})
    cb = st.fixed_dictionaries({"t": st.just("cb"), "est": st.integers(1, 5), "fpr": st.sampled_from([0.5, 0.3, 0.1, 0.05, 0.01]),
                                "hash": gen.hash_name_st(["default", "md5", "coincide", "pairs", "tiny", "bylen", "ident"]),
                                "pool": gen.pool_st(2, 3), "ops": hist(CB_AMTS, ["union", "intersection"])})
    return st.one_of(cms, cb)


def exhaustive(tier):
    L = 2 if tier == "quick" else 3

    def gen_():
        for t, amts in (("cms", [1, I32MAX - 1, I32MAX, I32MAX + 1, 2 ** 32, 2 ** 63, 2 ** 64 + 5, I32MAX // 2 + 1]),
                        ("cb", [1, U32MAX - 1, U32MAX, U32MAX + 1, 2 ** 31, 2 ** 63, 2 ** 64 + 5, U32MAX // 2 + 1])):
            alpha = [[k, i, a] for k in ("add", "remove") for i in (0, 1) for a in amts]
            for n in range(1, L + 1):
                for combo in itertools.product(alpha, repeat=n):
                    base = {"t": t, "pool": ["s:a", "s:b"], "ops": [list(o) for o in combo]}
                    if t == "cms":
                        yield dict(base, w=2, d=2, qt="min", hash="default")
                    else:
                        yield dict(base, est=2, fpr=0.3, hash="coincide" if n % 2 else "default")

    return [("2keys_8amounts_len<=%d" % L, gen_)]


def clamp32(v):
    return max(I32MIN, min(I32MAX, v))


def clamp64(v):
    return max(I64MIN, min(I64MAX, v))


# ------------------------------------------------------------------------------------------------

class CmsModel:
    def __init__(self, w, d, hf):
        from probables.hashes import default_fnv_1a
        self.w, self.d = w, d
        self.hf = hf if hf is not None else default_fnv_1a
        self.cells = [0] * (w * d)
        self.total = 0
        self.hit = False

    def idx(self, key):
        return [(h % self.w) + i * self.w for i, h in enumerate(self.hf(key, self.d))]

    def add(self, key, n):
        vals = []
        for i in self.idx(key):
            v = self.cells[i] + n
            if not (I32MIN <= v <= I32MAX):
                self.hit = True
            self.cells[i] = clamp32(v)
            vals.append(self.cells[i])
        t = self.total + n
        if not (I64MIN <= t <= I64MAX):
            self.hit = True
        self.total = clamp64(t)
        if I32MAX in vals or I32MIN in vals:
            self.hit = True
        return vals


def _cells_i32(raw, n):
    import struct
    return list(struct.unpack("%di" % n, raw[: 4 * n]))


def _run_cms(case, ctx):
    from probables import CountMinSketch

    hf = hash_by_name(case["hash"])
    pool = [dk(k) for k in case["pool"]]
    w, d = case["w"], case["d"]
    qt = case["qt"] if w >= 2 else ("min" if case["qt"] == "mean-min" else case["qt"])
    cmscls = case.get("cmscls", "cms")
    if cmscls == "st":
        from probables import StreamThreshold
        o = StreamThreshold(threshold=3, width=w, depth=d, hash_function=hf)
    elif cmscls == "hh":
        from probables import HeavyHitters
        o = HeavyHitters(num_hitters=2, width=w, depth=d, hash_function=hf)
    else:
        o = CountMinSketch(width=w, depth=d, hash_function=hf)
    ctx.feat("cms_class_" + cmscls)
    o.query_type = qt
    m = CmsModel(w, d, hf)
    nx = "C16.no_exception"

    def agree(what):
        raw = ctx.call(nx, bytes, o)
        cells = _cells_i32(raw, w * d)
        ctx.check("C16.cms_cells", cells == m.cells, lambda: f"{what}: cells {cells} != clamping model {m.cells}")
        ctx.check("C16.cms_cells", o.elements_added == m.total, lambda: f"{what}: elements_added {o.elements_added} != clamp64 model {m.total}")
        g = ctx.call(nx, CountMinSketch.frombytes, raw, hf)
        ctx.check("C16.export", bytes(g) == raw, f"{what}: frombytes(bytes()) re-exports differently")

    ops = []
    for op in case["ops"]:  # pin_release: drive a key to the limit and take the same amount away again (small total, pinned cells)
        if op[0] == "freeze":
            op = ["pin_release", op[1], I32MAX]
        ops += [["add", op[1], op[2]], ["remove", op[1], op[2]]] if op[0] == "pin_release" else [op]
    for op in ops:
        kind = op[0]
        if kind in ("add", "remove"):
            k = pool[op[1] % len(pool)]
            n = op[2]
            if cmscls == "hh" and kind == "remove":
                kind = "add"  # HeavyHitters does not support removal
            r = ctx.call(nx, o.add if kind == "add" else o.remove, k, n)
            vals = m.add(k, n if kind == "add" else -n)
            if qt == "min":
                ctx.check("C16.cms_cells", r == min(vals), lambda: f"{kind}({k!r},{n}) returned {r}, smallest of the key's cells is {min(vals)}")
                c = ctx.call(nx, o.check, k)
                ctx.check("C16.cms_cells", c == r, lambda: f"{kind}({k!r},{n}) returned {r} but check says {c}")
            else:
                c = ctx.call(nx, o.check, k)
                ctx.check("C16.cms_cells", c == r, lambda: f"{qt} query: {kind}({k!r},{n}) returned {r} but check says {c} right afterwards")
            ctx.op(kind, op[1] % len(pool), n)
        else:  # join
            s = CountMinSketch(width=w, depth=d, hash_function=hf)
            sm = CmsModel(w, d, hf)
            for sk, si, sn in op[1]:
                key = pool[si % len(pool)]
                (s.add if sk == "add" else s.remove)(key, sn)
                sm.add(key, sn if sk == "add" else -sn)
            sraw = bytes(s)
            if cmscls != "cms":
                ctx.op("join-skipped", op[1])  # join is not supported by the tracking subclasses
                agree(f"after {op}")
                continue
            ctx.call(nx, o.join, s)
            raw = bytes(o)
            cells = _cells_i32(raw, w * d)
            for i, (a, b, c) in enumerate(zip(m.cells, sm.cells, cells)):
                ok = {clamp32(a + b)}
                if a in (I32MAX, I32MIN):
                    ok.add(a)
                # (a limit value in the ARGUMENT is an ordinary summand: only the receiver's own pinned cells stay as they are)
                ctx.check("C16.cms_join", c in ok, lambda: f"join cell {i}: {a} + {b} -> {c}, expected one of {sorted(ok)}")
                if not (I32MIN < a + b < I32MAX):
                    m.hit = True
            ctx.check("C16.cms_join", o.elements_added == clamp64(m.total + sm.total),
                      lambda: f"join total {o.elements_added} != clamp64({m.total} + {sm.total})")
            ctx.check("C16.cms_join", bytes(s) == sraw, "join modified its argument")
            if not (I64MIN < m.total + sm.total < I64MAX):
                m.hit = True
            m.cells, m.total = cells, o.elements_added
            m.hit = m.hit or sm.hit
            ctx.feat("cms_join")
            ctx.op("join", op[1])
        agree(f"after {op}")
        if len(ops) and op is ops[-1]:
            # "no cell is left half-updated": a call that FAILS (hash list longer than the sketch is deep) must not have written
            before = bytes(o)
            k0 = pool[0]
            for fn in (o.add_alt, o.remove_alt):
                try:
                    fn(o.hashes(k0, d + 2), 2 ** 31)
                except Exception:  # noqa
                    pass
                ctx.check("C16.cms_cells", bytes(o) == before, lambda: f"{fn.__name__} with a hash list longer than the depth raised, but cells/total changed (half-updated)")
    ctx.feat("cms_qt_" + qt)
    return m.hit


def _run_cb(case, ctx):
    import struct
    from collections import Counter

    from probables import CountingBloomFilter

    hf = hash_by_name(case["hash"])
    pool = [dk(k) for k in case["pool"]]
    nx = "C16.no_exception"
    o = CountingBloomFilter(case["est"], case["fpr"], hash_function=hf)
    mbits, k = o.number_bits, o.number_hashes
    pos = {key: [h % mbits for h in o.hashes(key)[:k]] for key in pool}
    cells = [0] * mbits
    total = 0
    true = Counter()
    hit = False

    def read(obj):
        raw = bytes(obj)
        return list(struct.unpack("%dI" % mbits, raw[: 4 * mbits])), raw

    def model_add(cs, key, n):
        nonlocal hit
        pre = [cs[p] for p in pos[key]]
        for p in pos[key]:
            if cs[p] + n >= U32MAX:
                hit = True
            cs[p] = min(cs[p] + n, U32MAX)
        return min(min(v + n, U32MAX) for v in pre)

    ops = []
    for op in case["ops"]:
        if op[0] == "freeze":
            # two keys sharing a cell: the shared cell reaches the limit and stays frozen while both keys are taken out again,
            # leaving pinned cells under a tiny element total
            ops += [["add", op[1], U32MAX - 1], ["add", op[2], 1], ["remove", op[1], U32MAX - 1], ["remove", op[2], 1]]
        else:
            ops += [["add", op[1], op[2]], ["remove", op[1], op[2]]] if op[0] == "pin_release" else [op]
    for op in ops:
        kind = op[0]
        if kind in ("add", "remove"):
            key = pool[op[1] % len(pool)]
            n = op[2]
            if kind == "remove":
                if true[key] <= 0:
                    kind = "add"
                else:
                    n = 1 + (n - 1) % true[key]
            if kind == "add":
                r = ctx.call(nx, o.add, key, n)
                want = model_add(cells, key, n)
                true[key] += n
                if total + n >= U64MAX:
                    hit = True
                total = min(total + n, U64MAX)
                got, raw = read(o)
                ctx.check("C16.cb_cells", got == cells, lambda: f"after add({key!r},{n}): cells {got} != clamping model {cells}")
                ctx.check("C16.cb_cells", o.elements_added == total, lambda: f"after add({key!r},{n}): elements_added {o.elements_added} != {total}")
                smallest = min(cells[p] for p in pos[key])
                if smallest == U32MAX:
                    ctx.check("C16.cb_cells", r == U32MAX, lambda: f"add({key!r},{n}) returned {r} although the key's smallest cell is pinned")
                if len(set(pos[key])) == len(pos[key]):
                    c = ctx.call(nx, o.check, key)
                    ctx.check("C16.cb_cells", r == c == want, lambda: f"add({key!r},{n}) returned {r}, check {c}, model {want}")
            else:
                pinned = [p for p in pos[key] if cells[p] == U32MAX]
                mn = min(cells[p] for p in pos[key])
                r = ctx.call(nx, o.remove, key, n)
                if mn != U32MAX and mn != 0:
                    take = min(n, mn)
                    for p in pos[key]:
                        if cells[p] < U32MAX:
                            cells[p] -= take
                    if not pinned:
                        total -= take
                    else:
                        total = None
                true[key] -= n
                got, raw = read(o)
                ctx.check("C16.cb_cells", got == cells, lambda: f"after remove({key!r},{n}): cells {got} != model {cells} (pinned cells must stay)")
                if total is None:
                    total = o.elements_added
                ctx.check("C16.cb_cells", o.elements_added == total, lambda: f"after remove({key!r},{n}): elements_added {o.elements_added} != {total}")
                if pinned:
                    ctx.feat("cb_remove_with_pinned_cell")
            ctx.op(kind, op[1] % len(pool), n)
        else:
            s = CountingBloomFilter(case["est"], case["fpr"], hash_function=hf)
            sc = [0] * mbits
            strue = Counter()
            for sk, si, sn in op[1]:
                key = pool[si % len(pool)]
                if sk == "remove" and strue[key] > 0:
                    sn = 1 + (sn - 1) % strue[key]
                    mn = min(sc[p] for p in pos[key])
                    s.remove(key, sn)
                    if mn not in (0, U32MAX):
                        for p in pos[key]:
                            if sc[p] < U32MAX:
                                sc[p] -= min(sn, mn)
                    strue[key] -= sn
                else:
                    s.add(key, sn)
                    model_add(sc, key, sn)
                    strue[key] += sn
            got_s, sraw = read(s)
            ctx.check("C16.cb_cells", got_s == sc, "second operand differs from its model")
            res = ctx.call(nx, o.union if kind == "union" else o.intersection, s)
            ctx.check(nx, res is not None, f"{kind} of same-geometry filters returned None")
            # cells are read from the array: a result whose cells are all non-zero carries the documented -1 estimate as its
            # element count and cannot be exported (open finding KF_SATURATED_SETOP, property C05)
            got = [int(x) for x in res.bloom]
            if kind == "union":
                want = [min(a + b, U32MAX) for a, b in zip(cells, sc)]
            else:
                want = [min(a + b, U32MAX) if a > 0 and b > 0 else 0 for a, b in zip(cells, sc)]
            if any(a + b >= U32MAX for a, b in zip(cells, sc)):
                hit = True
            ctx.check("C16.cb_setops", got == want, lambda: f"{kind}: cells {got} != {want} (operands {cells} / {sc})")
            ctx.check("C16.cb_setops", read(o)[0] == cells and bytes(s) == sraw, f"{kind} modified an operand")
            if res.elements_added >= 0:
                rr = ctx.call(nx, bytes, res)
                g = ctx.call(nx, CountingBloomFilter.frombytes, rr, hf)
                ctx.check("C16.export", bytes(g) == rr, f"{kind} result does not round-trip")
            else:
                ctx.feat("cb_setop_result_saturated_estimate")
            if res.elements_added >= 1:
                # the PRODUCT stays in use: a key that has a pinned cell and unpinned ones is removed from it once - the cell a merge
                # pinned is as frozen as one an add pinned (the removal is within the product's element count: see the open
                # finding KF_SETOP_PRODUCT_NEGATIVE_COUNT for what lies beyond)
                for key in pool:
                    vals = [want[p] for p in pos[key]]
                    if true[key] + strue[key] >= 1 and any(v == U32MAX for v in vals) and 0 < min(vals) < U32MAX:  # (a legitimate removal)
                        ctx.call(nx, res.remove, key, 1)
                        want2 = list(want)
                        for p in pos[key]:
                            if want2[p] < U32MAX:
                                want2[p] -= 1
                        got2 = [int(x) for x in res.bloom]
                        ctx.check("C16.cb_cells", got2 == want2,
                                  lambda: f"remove({key!r},1) from a {kind} product: cells {got2} != {want2} (cells pinned by the merge must stay pinned)")
                        ctx.feat("cb_remove_from_product_with_pinned_cell")
                        break
            ctx.feat("cb_" + kind)
            ctx.op(kind, op[1])
        raw = ctx.call(nx, bytes, o)
        g = ctx.call(nx, CountingBloomFilter.frombytes, raw, hf)
        ctx.check("C16.export", bytes(g) == raw, f"after {op}: frombytes(bytes()) re-exports differently")
        hx = ctx.call(nx, o.export_hex)
        g2 = ctx.call(nx, CountingBloomFilter, hex_string=hx, hash_function=hf)
        ctx.check("C16.export", bytes(g2) == raw, f"after {op}: hex round trip differs")
    if any(len(set(p)) < len(p) for p in pos.values()):
        ctx.feat("cb_coinciding_positions")
    ctx.feat("cb_hash_" + case["hash"])
    return hit


def run_case(case, ctx):
    hit = _run_cms(case, ctx) if case["t"] == "cms" else _run_cb(case, ctx)
    ctx.feat("limit_reached" if hit else "no_limit")
    ctx.nt(hit)
    ctx.trace.insert(0, [case["t"], case.get("w"), case.get("d"), case.get("est"), case.get("fpr"), case["hash"], case["pool"]])
