"""C10 - Rotating Bloom filter stays bounded and keeps the most recent insertions."""
import itertools

from vlib.drivers import expanding as drv

ID = "C10"
LEVEL = "exploration"
ORACLES = {
    "C10.bound": "after every step 1 <= current_queue_size <= max_queue_size, every per-filter count in the export <= est and equal "
                 "to the queue model; pop on a single-filter queue raises RotatingBloomFilterError and changes nothing, otherwise it "
                 "removes exactly the oldest filter",
    "C10.window": "a key reported absent immediately before its add is reported present right after it and at every later step "
                  "while at most (max_queue_size-1)*est effective insertions followed it and no explicit push/pop happened since",
    "C10.no_exception": "no add/push/export/load raises",
}
RULE = ("Hypothesis draws est 1..8, max_queue_size 1..4, fpr from a short list, a hash strategy and 5-100 ops from {add new key, "
        "duplicate, forced add, reload with the same queue limit, and in 1/4 of the cases push / pop}. Exhaustive slice: est <= 2, "
        "Q <= 3, every op string of length <= L (L=6 quick, 8 thorough) over {new, dup, forced, push, pop, reload}. Non-trivial = a "
        "rotation dropped a filter and a guaranteed key was checked >= est effective insertions after its own insertion. Distinct by "
        "resolved history.")
ASSUMPTIONS = ["an explicit push/pop voids the recency guarantee of all earlier keys (as the property says) - nothing more"]
MANIFEST = {
    "technique": "model-based property testing over add/push/pop/reload histories + exhaustive short op strings; queue model and "
                 "recency-window oracle",
    "level_text": "Exploration: all op strings up to length 6/8 for est<=2, Q<=3 exhaustively; longer histories sampled. The recency "
                  "window is checked for every key of the history after every step, not only the latest.",
    "level_note": "Trusted: queue model and window bound restated from the property; harness stream parser.",
}
P = {"bound": "C10.bound", "window": "C10.window"}


def budget(tier):
    return {"cases": 16 * 300 if tier == "quick" else 16 * 6000}


def strategy(tier):
    return drv.case_strategy(tier, rot=True, max_ops=100)


def exhaustive(tier):
    L = 6 if tier == "quick" else 8
    alphabet = [["new"], ["dup", 0], ["forced", 0], ["push"], ["pop"], ["reload", 0]]

    def gen():
        for est in (1, 2):
            for q in (1, 2, 3):
                for n in range(1, L + 1):
                    for combo in itertools.product(range(6), repeat=n):
                        if n > 5 and sum(1 for c in combo if c in (3, 4)) > 2:
                            continue  # long strings: at most two explicit push/pop (they void the window)
                        yield {"rot": True, "est": est, "fpr": 0.001, "q": q, "hash": "default",
                               "ops": [alphabet[c] for c in combo]}

    def large():
        # filters holding more than 256 elements each: the rotation falls exactly at est_elements there too (counts above the range
        # in which equal integers are also identical objects)
        for est in (255, 256, 257, 300):
            for q in (1, 2):
                yield {"rot": True, "est": est, "fpr": 0.01, "q": q, "hash": "default",
                       "ops": [["bulk", est - 2], ["new"], ["new"], ["new"], ["bulk", est + 2], ["new"], ["reload", 0], ["bulk", 5]]}

    return [("op_strings_len<=%d_est<=2_Q<=3" % L, gen), ("rotation_at_est_255..300", large)]


def run_case(case, ctx):
    d = drv.run_twins(case, ctx, P)
    ctx.nt("rotation_dropped_filter" in d.feats and "window_checked_age>=est" in d.feats)
    ctx.trace.insert(0, ["est", case["est"], "Q", case["q"], "fpr", case["fpr"], case["hash"]])
