"""C12 - union and join equal the structure built from both streams."""
from hypothesis import strategies as st

from vlib import gen
from vlib.drivers import setops as so

ID = "C12"
LEVEL = "exploration"
ORACLES = {
    "C12.bloom_union": "A.union(B) has exactly the bit array of one filter fed stream A then stream B (in-memory / on-disk operands in "
                       "either position); it reports every key either operand reports",
    "C12.cbloom_union": "counting-Bloom union has exactly the uint32 counters of one filter fed both streams; check(k) >= summed true counts",
    "C12.cms_join": "after A.join(B), bytes(A) (counters AND element total) is identical to the single sketch fed both streams; B is "
                    "unchanged; no estimate below the summed true counts",
    "C12.returns": "union/join of compatible unsaturated operands returns normally and not None",
    "C12.no_exception": "(soft) an exception while feeding the operands abandons the case; counted, not reported",
}
RULE = ("Metamorphic relation. Hypothesis draws a structure type (Bloom with operand kinds in {in-memory, on-disk}^2, counting Bloom, "
        "count-min), one geometry (est 1..60 / fpr list, or width 1..8 x depth 1..5) and hash strategy shared by both operands, a pool "
        "of 2-10 keys and two streams of <= 12 operations (adds; for counting Bloom and count-min also legitimate removes resolved "
        "within their own stream). Three structures are built: A from stream A, B from stream B, S from A's stream followed by B's. "
        "In half of the Bloom / counting cases a SECOND round follows on the same operand objects: optional clear() of either operand, more "
        "additions, and the union is compared again with a freshly built structure. Non-trivial = both streams non-empty and at least one cell touched by both. Distinct by (config, resolved streams).")
ASSUMPTIONS = ["operands are unsaturated (amounts <= 300)", "a Bloom union whose bits are all set is compared on the bit array only"]
MANIFEST = {
    "technique": "metamorphic property testing: single stream == union/join of two streams, compared on the raw cell arrays",
    "level_text": "Exploration over geometries (incl. number_bits % 8 != 0, colliding hash strategies), operand kinds and stream pairs; "
                  "the oracle is exact byte equality of cell arrays (and footer for join) with an independently built structure.",
    "level_note": "Trusted: the library's own add/remove for building the single-stream structure (its correctness is C01/C02/C08's "
                  "subject); byte comparison.",
}


def budget(tier):
    return {"cases": 16 * 250 if tier == "quick" else 16 * 5000}


def strategy(tier):
    geom = st.tuples(st.one_of(st.integers(1, 8), st.integers(1, 60)),
                     st.one_of(st.sampled_from([0.5, 0.3, 0.1, 0.05, 0.01, 0.001]), gen.fpr_st(9.0)))
    # 1 Bloom case in ~30: bit arrays beyond 1 MiB (block-wise implementations process the array in chunks; the second and later
    # chunks of an on-disk operand are what matters), no second round then
    big_geom = st.tuples(st.sampled_from([900000, 1000000, 1800000]), st.just(0.01))
    bloom = st.fixed_dictionaries({
        "t": st.just("bloom"), "geom": st.integers(0, 29).flatmap(lambda z: big_geom if z == 0 else geom), "hash": gen.hash_name_st(gen.ALL_HASHES + ["textonly"]), "pool": gen.pool_st(2, 10),
        "ka": st.sampled_from(["bloom", "ondisk"]), "kb": st.sampled_from(["bloom", "ondisk"]),
        "sa": so.stream_st(False), "sb": so.stream_st(False), "sx": so.stream_st(False, max_len=4), "chain": st.sampled_from([0, 0, 1, 2]), "fresh_hf": st.booleans(),
        "va": st.sampled_from(so.OPERAND_VARIANTS), "vb": st.sampled_from(so.OPERAND_VARIANTS), "nudge": st.sampled_from([0, 0, 0, 1, 2]),
        "frac": st.sampled_from([0, 0, 0, 0, 0, 0.5, 0.25]),
        "p2": st.one_of(st.none(), st.fixed_dictionaries({"ca": st.booleans(), "cb": st.booleans(), "sa2": so.stream_st(False, max_len=5),
                                                           "sb2": so.stream_st(False, max_len=5)}))})
    cb = st.fixed_dictionaries({
        "t": st.just("cbloom"), "geom": geom, "hash": gen.hash_name_st(gen.ALL_HASHES + ["textonly"]), "pool": gen.pool_st(2, 10),
        "sa": so.stream_st(True), "sb": so.stream_st(True), "sx": so.stream_st(True, max_len=4), "chain": st.sampled_from([0, 0, 1, 2]), "fresh_hf": st.booleans(),
        "va": st.sampled_from(["same", "same", "reload", "hex"]), "vb": st.sampled_from(["same", "same", "reload", "hex"]),
        "nudge": st.sampled_from([0, 0, 0, 1, 2]), "frac": st.sampled_from([0, 0, 0, 0, 0, 0.5, 0.25]),
        "p2": st.one_of(st.none(), st.fixed_dictionaries({"ca": st.booleans(), "cb": st.booleans(), "sa2": so.stream_st(True, max_len=5),
                                                           "sb2": so.stream_st(True, max_len=5)}))})
    cms = st.fixed_dictionaries({
        "t": st.just("cms"), "w": st.one_of(st.integers(1, 3), st.integers(1, 8)), "d": st.integers(1, 5),
        "hash": gen.hash_name_st(gen.ALL_HASHES + ["textonly"]), "pool": gen.pool_st(2, 10), "qt": st.sampled_from(["min", "mean", "mean-min"]), "raw": st.booleans(), "balance": st.booleans(),
        "sa": so.stream_st(True), "sb": so.stream_st(True), "sx": so.stream_st(True, max_len=4), "chain": st.sampled_from([0, 0, 1, 2]),
        "fresh_hf": st.booleans()})
    return st.one_of(bloom, cb, cms)


def run_case(case, ctx):
    from collections import Counter

    pool = so.keys_of(case)
    ra, ta = so.resolve(case["sa"], len(pool))
    rb, tb = so.resolve(case["sb"], len(pool))
    # chain: one operand is itself the PRODUCT of an earlier union/join with a third stream X (a reachable state whose input
    # stream is the concatenation); 1 = the receiver is a product, 2 = the argument is
    chain = case.get("chain", 0)
    rx, tx = so.resolve(case.get("sx", []), len(pool))
    t = case["t"]
    noexc = "C12.returns"
    ctx.soft_noexc = True
    objs = []
    try:
        if t in ("bloom", "cbloom"):
            est, fpr = case["geom"]
            ka, kb = (case["ka"], case["kb"]) if t == "bloom" else ("counting", "counting")
            frac, va, vb = case.get("frac") or 0, case.get("va", "same"), case.get("vb", "same")
            big = est >= 500000
            if big:
                case = dict(case, p2=None, chain=0)
                chain = 0
                if t == "bloom" and "ondisk" not in (ka, kb):
                    kb = "ondisk"
                va = va if va in ("same", "file_ondisk", "handle2") else "same"
                vb = vb if vb in ("same", "file_ondisk", "handle2") else "same"
                ctx.feat("bit_array_over_1MiB")
            if frac:
                # a fractional est_elements (len(items) * 1.5) is accepted by the in-memory constructors and sizes the filter from
                # the fraction; such filters cannot be exported on the pinned tree, so only the in-memory operations are judged
                est = est + frac
                if t == "bloom":
                    ka = kb = "bloom"
                va = va if va == "zero" else "same"
                vb = vb if vb == "zero" else "same"
                ctx.feat("fractional_est_elements")
            fpr_b, est_b = fpr, est
            if case.get("nudge"):
                g2_ = so.same_geometry_params(est, fpr, len(case["sa"]) + 2 * len(case["sb"]))
                if g2_ is not None:
                    est_b, fpr_b = g2_
                    if case["nudge"] == 2:
                        # (either operand may be the one with the other nominal parameters)
                        est, est_b, fpr, fpr_b = est_b, est, fpr_b, fpr
                    ctx.feat("operands_same_geometry_different_nominal_rate" if est_b == est else "operands_same_geometry_different_est_elements")
            try:
                A = so.make_bloom(ctx, ka, est, fpr, case["hash"], "a")
            except Exception as e:  # noqa
                from vlib.core import innermost_is_library
                if not innermost_is_library(e):
                    raise
                ctx.feat("rejected_params")
                return
            objs.append(A)
            B = so.make_bloom(ctx, kb, est_b, fpr_b, case["hash"], "b")
            objs.append(B)
            S = so.make_bloom(ctx, "counting" if t == "cbloom" else "bloom", est, fpr, case["hash"], "s")
            ha2 = so.second_handle(ctx, A, ka, case["hash"]) if va == "handle2" else None
            hb2 = so.second_handle(ctx, B, kb, case["hash"]) if vb == "handle2" else None
            objs.extend(h for h in (ha2, hb2) if h is not None)
            so.feed(A, ka, pool, ra)
            so.feed(B, kb, pool, rb)
            so.feed(S, "counting" if t == "cbloom" else "bloom", pool, ra + rb + (rx if chain else []))
            if chain:
                X = so.make_bloom(ctx, "counting" if t == "cbloom" else "bloom", est, fpr, case["hash"], "x")
                so.feed(X, "counting" if t == "cbloom" else "bloom", pool, rx)
                if chain == 1:
                    A = ctx.call(noexc, A.union, X)
                    ka = "counting" if t == "cbloom" else "bloom"
                else:
                    B = ctx.call(noexc, X.union, B)
                    kb = "counting" if t == "cbloom" else "bloom"
                ctx.check(noexc, A is not None and B is not None, "union of same-geometry same-hash operands returned None")
                for i, v in tx.items():
                    (ta if chain == 1 else tb)[i] += v
                ctx.feat("chained_product_operand")
                if (A if chain == 1 else B).elements_added == 0 and rx + (ra if chain == 1 else rb):
                    ctx.feat("product_operand_with_zero_estimate")
            # the operands as they reach the operation in real use (reloaded, reopened on disk, counter reassigned, second handle)
            A_feed = B_feed = None  # the handle later additions go through (second round), if not the operand itself
            if ha2 is not None and chain != 1:
                A_feed, A = A, ha2
                ctx.feat("operand_second_live_handle")
            elif va not in ("same", "handle2"):
                A, ka, extra = so.operand_variant(ctx, A, ka, va, case["hash"], "a")
                objs.extend(extra)
                ctx.feat("operand_" + va)
            if hb2 is not None and chain != 2:
                B_feed, B = B, hb2
                ctx.feat("operand_second_live_handle")
            elif vb not in ("same", "handle2"):
                B, kb, extra = so.operand_variant(ctx, B, kb, vb, case["hash"], "b")
                objs.extend(extra)
                ctx.feat("operand_" + vb)
            if kb == "ondisk" and B.elements_added == 0 and any(so.cells(B, kb)):
                ctx.feat("ondisk_argument_zero_count_bits_set")
            ca, cb_ = so.cells(A, ka), so.cells(B, kb)
            U = ctx.call(noexc, A.union, B)
            ctx.check(noexc, U is not None, "union of same-geometry same-hash operands returned None")
            name = "C12.bloom_union" if t == "bloom" else "C12.cbloom_union"
            kind_u = "counting" if t == "cbloom" else "bloom"
            cu, cs = so.cells(U, kind_u), so.cells(S, kind_u)
            def _cells_msg():
                i = next((j for j, (x, y) in enumerate(zip(cu, cs)) if x != y), min(len(cu), len(cs)))
                if len(cu) > 4096:
                    return f"union cells differ from the single-stream structure (lengths {len(cu)}/{len(cs)}), first at byte {i}: {cu[i:i+8].hex()} != {cs[i:i+8].hex()}"
                return f"union cells differ from the single-stream structure: {cu.hex()} != {cs.hex()}"
            ctx.check(name, cu == cs, _cells_msg)
            ctx.check(name, so.cells(A, ka) == ca and so.cells(B, kb) == cb_, "union modified an operand")
            for k in pool:
                if t == "bloom":
                    if A.check(k) or B.check(k):
                        ctx.check(name, U.check(k) is True, lambda: f"union does not report {k!r} which an operand reports")
                else:
                    want = ta[pool.index(k)] + tb[pool.index(k)]
                    ctx.check(name, U.check(k) >= want, lambda: f"union count for {k!r} = {U.check(k)} below summed true count {want}")
                    ctx.check(name, U.check(k) >= max(A.check(k), B.check(k)), f"union count below an operand's for {k!r}")
            both = any(x and y for x, y in zip(ca, cb_)) if t == "bloom" else \
                any(ca[i:i + 4] != b"\0\0\0\0" and cb_[i:i + 4] != b"\0\0\0\0" for i in range(0, len(ca), 4))
            ctx.feat("%s_%s_%s" % (t, ka, kb))
            ctx.feat("m%%8=%d" % (A.number_bits % 8))
            ctx.nt(bool(ra) and bool(rb) and both)
            p2 = case.get("p2")
            if p2:
                # second round on the SAME operand objects: optionally clear() one or both, feed more, unite again - the result must
                # again equal a freshly built single-stream structure (anything an operand cached during the first union is stale now)
                cur_a = [] if p2["ca"] else list(ra) + (rx if chain == 1 else [])
                cur_b = [] if p2["cb"] else list(rb) + (rx if chain == 2 else [])
                if p2["ca"]:
                    ctx.call(noexc, A.clear)
                if p2["cb"]:
                    ctx.call(noexc, B.clear)
                ra2, _ = so.resolve(p2["sa2"], len(pool))
                rb2, _ = so.resolve(p2["sb2"], len(pool))
                ra2 = [[k, abs(n)] for k, n in ra2]
                rb2 = [[k, abs(n)] for k, n in rb2]
                # with two live handles on one backing file the second-round additions arrive through the OTHER handle than the
                # one that takes part in the unions: the operand must show them all the same (one file, one set of bits)
                so.feed(A_feed if A_feed is not None and not p2["ca"] else A, ka, pool, ra2)
                so.feed(B_feed if B_feed is not None and not p2["cb"] else B, kb, pool, rb2)
                if (A_feed is not None and not p2["ca"] and ra2) or (B_feed is not None and not p2["cb"] and rb2):
                    ctx.feat("second_round_written_through_the_other_handle")
                S2 = so.make_bloom(ctx, kind_u, est, fpr, case["hash"], "s2")
                so.feed(S2, kind_u, pool, cur_a + ra2 + cur_b + rb2)
                U2 = ctx.call(noexc, A.union, B)
                ctx.check(noexc, U2 is not None, "second union returned None")
                c2, cs2 = so.cells(U2, kind_u), so.cells(S2, kind_u)
                ctx.check(name, c2 == cs2, lambda: f"second union (after clear a={p2['ca']} b={p2['cb']} and more additions) differs from the "
                                                   f"single-stream structure: {c2.hex()} != {cs2.hex()}")
                U3 = ctx.call(noexc, B.union, A)
                ctx.check(name, U3 is not None and so.cells(U3, kind_u) == cs2, "second union with swapped operands differs")
                ctx.feat("second_round_%s%s" % ("clearA" if p2["ca"] else "", "clearB" if p2["cb"] else ""))
        else:
            if case.get("raw"):
                # count-min counters are signed: removals are applied AS GENERATED (also beyond what was added), so operands can
                # have negative bins and a net total of zero with non-zero bins; only the metamorphic equality applies then
                ra = [[k % len(pool), n] for k, n in case["sa"]]
                rb = [[k % len(pool), n] for k, n in case["sb"]]
                rx = [[k % len(pool), n] for k, n in case.get("sx", [])]
                if case.get("balance") and rb:
                    # make the argument's NET total exactly zero while its bins are not (the balancing amount goes to another key)
                    net = sum(n for _, n in rb)
                    if net:
                        rb.append([(rb[-1][0] + 1) % len(pool), -net])
                ctx.feat("cms_raw_removals")
            A, B, S = (so.make_cms(case["w"], case["d"], case["hash"]) for _ in range(3))
            qt = case["qt"] if case["w"] >= 2 else "min"  # mean-min divides by (width - 1): width 1 is outside its domain
            for o in (A, B, S):
                o.query_type = qt
            so.feed(A, "cms", pool, ra)
            so.feed(B, "cms", pool, rb)
            so.feed(S, "cms", pool, ra + rb + (rx if chain else []))
            if chain:
                X = so.make_cms(case["w"], case["d"], case["hash"])
                so.feed(X, "cms", pool, rx)
                (A if chain == 1 else B).join(X)
                for i, v in tx.items():
                    (ta if chain == 1 else tb)[i] += v
                ctx.feat("chained_product_operand")
            bb, ba = bytes(B), bytes(A)
            r = ctx.call(noexc, A.join, B)
            ctx.check("C12.cms_join", bytes(A) == bytes(S), lambda: f"join result {bytes(A).hex()} != single-stream sketch {bytes(S).hex()}")
            ctx.check("C12.cms_join", bytes(B) == bb, "join modified its argument")
            # both sketches stay in use: a later update of one must not show in the other
            ja = bytes(A)
            B.add(pool[0], 2)
            ctx.check("C12.cms_join", bytes(A) == ja, "adding to the ARGUMENT after the join changed the receiver (shared counters)")
            jb = bytes(B)
            A.add(pool[-1], 1)
            ctx.check("C12.cms_join", bytes(B) == jb, "adding to the RECEIVER after the join changed the argument (shared counters)")
            A.remove(pool[-1], 1)
            B.remove(pool[0], 2)
            ctx.check("C12.cms_join", A.elements_added == S.elements_added, "element total after join")
            if not case.get("raw"):
                ctx.check("C12.cms_join", A.elements_added == sum(ta.values()) + sum(tb.values()), "element total after join vs true counts")
            if B.elements_added == 0 and any(bb[:-16]):
                ctx.feat("cms_argument_net_zero_with_nonzero_bins")
            A.query_type = "min"
            for i, k in enumerate(pool):
                if not case.get("raw"):
                    ctx.check("C12.cms_join", A.check(k) >= ta[i] + tb[i], lambda: f"estimate for {k!r} below the summed true counts")
            w = case["w"]
            both = any(ba[i:i + 4] != b"\0\0\0\0" and bb[i:i + 4] != b"\0\0\0\0" for i in range(0, 4 * w * case["d"], 4))
            ctx.feat("cms_qt_" + case["qt"])
            ctx.nt(bool(ra) and bool(rb) and both)
        ctx.feat("hash_" + case["hash"])
        ctx.op(t, case.get("geom") or [case.get("w"), case.get("d")], case["hash"], case.get("ka"), case.get("kb"), case["pool"], ra, rb)
    finally:
        for o in objs:
            so.close(o)
