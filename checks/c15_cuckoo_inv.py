"""C15 - cuckoo table invariants hold after every operation."""
from vlib.drivers import cuckoo as drv

ID = "C15"
LEVEL = "exploration"
ORACLES = {
    "C15.inv": "after every call (including one that raised CuckooFilterFullError) and after loading an export: every bucket holds <= "
               "bucket_size entries; each stored fingerprint sits in one of its two candidate buckets (fp % capacity, hash(str(fp)) % "
               "capacity, recomputed by the harness for the CURRENT capacity); no fingerprint is stored twice; counting bins have count "
               ">= 1; capacity changes only by multiplication with expansion_rate",
    "C15.no_exception": "no exception other than CuckooFilterFullError",
}
RULE = ("Same generator as C03 (both classes, tiny tables, scripted random tape, schedule enumeration slice) plus the operation 'reload' "
        "(export to bytes or a file and load back, re-supplying fingerprint width, expansion rate and auto_expand). Non-trivial = an "
        "eviction chain ran, an expansion happened, a Full error was raised or the table was reloaded. Distinct by resolved history.")
ASSUMPTIONS = ["candidate buckets are recomputed by the harness from the supplied hash function (default: probables.hashes.fnv_1a, "
               "pinned by C18)"]
MANIFEST = {
    "technique": "invariant checking over generated operation histories and generated/enumerated eviction schedules",
    "level_text": "Exploration; the structural invariant is recomputed from the public bucket table after every single operation.",
    "level_note": "Trusted: the candidate-bucket rule restated in vlib/drivers/cuckoo.py; interception of `random`.",
}
P = {"inv": "C15.inv", "allow_reload": True}


def budget(tier):
    return {"cases": 16 * 300 if tier == "quick" else 16 * 5000}


def strategy(tier):
    return drv.case_strategy(tier, allow_reload=True)


def run_case(case, ctx):
    d = drv.CuckooDriver(case, ctx, P)
    d.run()
    ctx.nt(bool(d.feats & {"eviction_chain", "auto_expansion", "manual_expansion", "full_error", "reload"}))
    ctx.trace.insert(0, [case[k] for k in ("cls", "cap", "bs", "swaps", "fs", "rate", "auto", "hash", "pool", "tape")])
