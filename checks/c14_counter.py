"""C14 - elements_added tracks the documented quantity through every operation."""
from hypothesis import strategies as st

from vlib.drivers import bloom, cbloom, cms, cuckoo, expanding, qf

ID = "C14"
LEVEL = "exploration"
ORACLES = {
    "C14.bloom_counter": "BloomFilter / BloomFilterOnDisk / ExpandingBloomFilter: elements_added == number of add calls since clear() "
                         "(after a union: the estimate it was set to, plus later adds), across reload and close+reopen",
    "C14.bloom_stats": "(plain, on-disk after every step; counting Bloom at irregular points of the history) estimate_elements() within 1 of -(m/k) ln(1 - X/m) for X < m set bits; a union's elements_added is that "
                       "estimate; current_false_positive_rate() within 1e-9 relative of (1 - e^(-k n/m))^k with n = elements_added",
    "C14.expanding_counter": "ExpandingBloomFilter / RotatingBloomFilter: elements_added == number of add calls, also across push/pop/reload",
    "C14.cbloom_counter": "CountingBloomFilter: elements_added == net sum of added minus removed amounts",
    "C14.cms_counter": "count-min family: elements_added == net sum of amounts, across remove, reload and join",
    "C14.cuckoo_counter": "CuckooFilter: elements_added == number of stored fingerprints == sum(len(bucket)); CountingCuckooFilter: "
                          "elements_added == sum of bin counts == outstanding additions, unique_elements == number of bins; load_factor "
                          "== stored entries / (capacity*bucket_size); after every step incl. evictions, expansions, failed inserts",
    "C14.qf_counter": "QuotientFilter: elements_added == number of stored hashes after every add/remove/resize/merge",
    "C14.no_exception": "(soft) an unexpected exception abandons the case; counted, not reported - the operation's own property has a check",
}
RULE = ("One structure per case, drawn uniformly from the drivers of C01 (Bloom / on-disk / expanding with union, reload, reopen), C09/C10 "
        "(expanding / rotating), C08 (counting Bloom), C02 (count-min, HeavyHitters, StreamThreshold, plus reload and join), C03 (both "
        "cuckoo filters with scripted random tape) and C04 (quotient filter), each with its own generator; the counter oracle runs after "
        "EVERY step. Non-trivial = the history contains a step where a second code path maintains the counter: removal, eviction, "
        "expansion/growth, resize, merge, join, union, reload, reopen, clear, failed insert. Distinct by resolved history.")
ASSUMPTIONS = ["estimate_elements rounding mode is not specified by the property: +-1 accepted", "saturated filters (X == m) are outside the "
               "statistics formulas", "counting cuckoo load_factor is unique bins / slots (observed and documented behaviour)"]
MANIFEST = {
    "technique": "model-based property testing across all structures: per-structure reference counters evaluated after every step of "
                 "generated histories (shared drivers, scripted cuckoo schedules)",
    "level_text": "Exploration; every structure's counter is recomputed from an independent model after each operation, including the "
                  "secondary paths (removal, eviction, expansion, resize, join, reload, reopen).",
    "level_note": "Trusted: the models of the shared drivers in vlib/drivers/.",
}

SECOND_PATH = {"ev_reload_after_add", "ev_reopen_after_add", "ev_union_after_add", "ev_union", "ev_growth", "ev_clear", "growth", "push",
               "pop", "reload", "rotation_dropped_filter", "cb_remove", "cb_reload", "remove", "join", "eviction_chain", "auto_expansion",
               "manual_expansion", "full_error", "remove_present", "remove_member", "resize_up", "resize_down", "merge_with>=4",
               "resize_with>=4"}


def budget(tier):
    return {"cases": 16 * 420 if tier == "quick" else 16 * 6000}


def strategy(tier):
    def tag(t):
        return lambda c: dict(c, t=t)

    return st.one_of(
        bloom.case_strategy(tier).map(tag("bloom")),
        expanding.case_strategy(tier, rot=False, max_ops=40).map(tag("exp")),
        expanding.case_strategy(tier, rot=True, max_ops=40).map(tag("exp")),
        cbloom.case_strategy(tier).map(tag("cbloom")),
        cms.case_strategy(tier, classes=("cms", "cms", "hh", "st"), allow_clear=True, extra_ops=True).map(tag("cms")),
        cuckoo.case_strategy(tier).map(tag("cuckoo")),
        cuckoo.case_strategy(tier).map(tag("cuckoo")),
        qf.case_strategy(tier, max_ops=40).map(tag("qf")),
    )


def run_case(case, ctx):
    t = case["t"]
    ctx.soft_noexc = True
    before = set(ctx.features)
    if t == "bloom":
        d = bloom.BloomDriver(case, ctx, {"counter": "C14.bloom_counter", "stats": "C14.bloom_stats"})
        try:
            d.run()
        finally:
            d.close()
    elif t == "exp":
        expanding.run_twins(case, ctx, {"counter": "C14.expanding_counter"})
    elif t == "cbloom":
        cbloom.CBloomDriver(case, ctx, {"counter": "C14.cbloom_counter", "stats": "C14.bloom_stats"}).run()
    elif t == "cms":
        cms.CmsDriver(case, ctx, {"counter": "C14.cms_counter"}).run()
    elif t == "cuckoo":
        cuckoo.CuckooDriver(case, ctx, {"counter": "C14.cuckoo_counter"}).run()
    else:
        qf.run_with_fallback(case, ctx, {"counter": "C14.qf_counter"})
    feats = set(ctx.features) - before
    ctx.feat("structure_" + t + ("_" + str(case.get("kind") or case.get("cls") or ("rot" if case.get("rot") else ""))))
    ctx.nt(bool(feats & SECOND_PATH))
    ctx.trace.insert(0, [t])
