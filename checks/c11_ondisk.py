"""C11 - on-disk Bloom filter file is always a valid, current export (fault enumeration over crash points)."""
import os
import signal
import struct
import sys
from pathlib import Path

from hypothesis import strategies as st

from vlib import gen
from vlib.core import REPO
from vlib.gen import dk, hash_by_name

ID = "C11"
LEVEL = "fault_enumeration"
ORACLES = {
    "C11.snapshot": "at EVERY executed library source line of an add / close / export, the backing file read through a fresh descriptor "
                    "(= what survives a process kill there) has length ceil(m/8)+20, unchanged est/fpr in the footer, bits that are a "
                    "superset of all completed additions and a subset of completed + in-flight, and a stored count equal to the number of "
                    "completed additions (or +1 only while an add is in flight)",
    "C11.loads": "sampled snapshots (first, last, every 8th) load with BloomFilter.frombytes and report every completed addition",
    "C11.closed_equals_memory": "after close the file is byte-identical to bytes() of an in-memory BloomFilter driven with the same history",
    "C11.reopen": "reopening the file - relative name, path with a sub-directory, absolute path or Path object, from a different working "
                  "directory - gives a filter that reports every added key and the same element count, and the next close keeps them",
    "C11.export": "export(other path) from any working directory produces an identical, loadable copy",
    "C11.kill": "thorough/sampled: a child process replaying the history and SIGKILLed at line event i of the last operation leaves exactly "
                "the file the in-process snapshot i predicted, and it passes the snapshot oracle",
    "C11.closed_equals_memory(exit)": "normal-exit variant: the same kind of history in a fresh interpreter that exits normally, with filters "
                                      "also abandoned without close() and the file re-opened - after the process is gone the file equals the "
                                      "in-memory export of the history",
    "C11.no_exception": "no operation raises",
}
RULE = ("Histories: create BloomFilterOnDisk(geometry est 1..40 (1/16: 600..60000) x fpr list, default/md5/salted hash) at a generated location (relative "
        "name in cwd, relative path with a sub-directory, absolute path with cwd elsewhere, Path object, a name that goes through a "
        "symlinked directory and `..`, a `~/` name with HOME pointing at the history's root), then 2-25 ops: add(key from a pool; a quarter through "
        "add_alt with a hash list two entries longer than needed), export onto the OWN backing file in any spelling, a refused constructor call "
        "on the closed file before re-opening, "
        "of 2-8), close+reopen (location style and working directory re-drawn each time), export(other path, relative or absolute), "
        "clear. Fault model: process kill (no torn pages, no power loss). Enumeration: a sys.settrace line tracer restricted to library "
        "frames snapshots the backing file at every executed line of every add/close/export. A sampled fraction of histories (1/6 quick, "
        "1/2 thorough) additionally re-run in a forked child that SIGKILLs itself at line event i of the last operation, for up to 12 "
        "(quick) / all (thorough) i. Non-trivial = a snapshot strictly inside an add (some bit of the in-flight key already set while the "
        "stored count is not yet rewritten, or vice versa); distinct = (history digest, op index, line event) triples counted via their "
        "file content digests.")
ASSUMPTIONS = ["fault model = process kill: the page cache survives, so a read through a second descriptor shows what a SIGKILL would leave "
               "(cross-checked by the real-SIGKILL variant)", "crash points are Python source lines of the library, not individual stores inside "
               "mmap/write", "the in-memory BloomFilter is the reference for bit positions (its layout is C06's subject)"]
MANIFEST = {
    "technique": "fault injection by enumeration: generated histories (Hypothesis) x every executed library line as a crash point, file "
                 "snapshot validated against a reference in-memory filter; sampled real SIGKILL child processes",
    "level_text": "Fault enumeration: for every add/close/export of every generated history, every executed source line of the library is "
                  "treated as a kill point and the surviving file is validated; a sample is confirmed with real SIGKILLs.",
    "level_note": "Trusted: page-cache coherence between mmap and read(); sys.settrace line granularity; reference in-memory filter.",
}
FOOT = struct.Struct("QQf")


def budget(tier):
    return {"cases": 16 * 60 if tier == "quick" else 16 * 600}


def strategy(tier):
    loc = st.sampled_from(["rel", "sub", "abs", "path", "sym", "home"])
    ki = st.integers(0, 7)
    op = st.one_of(st.tuples(st.just("add"), ki), st.tuples(st.just("add"), ki), st.tuples(st.just("add"), ki),
                   st.tuples(st.just("add"), ki, st.just("alt")),
                   st.tuples(st.just("reopen"), loc, st.booleans()),
                   st.tuples(st.just("export"), st.sampled_from(["rel", "abs", "path"]), st.booleans()),
                   st.tuples(st.just("export_self"), loc, st.booleans()),
                   st.tuples(st.just("clear")), st.tuples(st.just("setcount"), st.integers(0, 60)))
    return st.fixed_dictionaries({
        # 1 case in 16: bit arrays beyond one page / beyond 64 KiB (only the first three operations are run then)
        "est": st.integers(0, 15).flatmap(lambda z: st.sampled_from([600, 7000, 60000, 60000, 1000000]) if z == 0 else
                                          st.one_of(st.integers(1, 8), st.integers(1, 40))),
        "fpr": st.sampled_from([0.5, 0.3, 0.1, 0.05, 0.01, 0.001, 0.0001]),
        "hash": st.sampled_from(["default", "default", "md5", "salted"]),
        "loc": loc, "elsewhere": st.booleans(), "pool": gen.pool_st(2, 8),
        "ops": st.lists(op, min_size=2, max_size=25).map(lambda l: [list(x) for x in l]),
        "kill": st.integers(0, 5),
    })


class Tracer:
    """line tracer restricted to library frames; calls hook(event_index) at every line event"""

    def __init__(self, hook):
        self.hook = hook
        self.n = 0
        self.prefix = os.path.join(REPO, "probables") + os.sep

    def _local(self, frame, event, arg):
        if event == "line":
            self.hook(self.n)
            self.n += 1
        return self._local

    def _global(self, frame, event, arg):
        if frame.f_code.co_filename.startswith(self.prefix):
            return self._local
        return None

    def run(self, fn, *a):
        old = sys.gettrace()
        sys.settrace(self._global)
        try:
            return fn(*a)
        finally:
            sys.settrace(old)


class World:
    """file locations for one history"""

    def __init__(self, root):
        self.root = os.path.realpath(root)
        os.makedirs(os.path.join(self.root, "sub"), exist_ok=True)
        os.makedirs(os.path.join(self.root, "elsewhere"), exist_ok=True)
        os.makedirs(os.path.join(self.root, "real", "inner"), exist_ok=True)
        if not os.path.lexists(os.path.join(self.root, "link")):
            os.symlink(os.path.join(self.root, "real", "inner"), os.path.join(self.root, "link"))
        self.fileabs = None

    def place(self, loc):
        """choose the real location of the backing file from the creation style"""
        self.sym = loc == "sym"
        if loc == "sym":
            # named as link/../f.blm where link -> real/inner: the operating system follows the link first, so this is real/f.blm
            self.fileabs = os.path.join(self.root, "real", "f.blm")
        else:
            self.fileabs = os.path.join(self.root, "sub", "f.blm") if loc == "sub" else os.path.join(self.root, "f.blm")

    def arg(self, style, elsewhere):
        """(cwd to switch to, argument to hand to the library) for the backing file"""
        if style == "home":
            # "~/..." : the user's home directory (HOME points at this history's root for the duration of the case)
            os.environ["HOME"] = self.root
            cwd = os.path.join(self.root, "elsewhere") if elsewhere else self.root
            return cwd, os.path.join("~", os.path.relpath(self.fileabs, self.root))
        if style == "sym" and getattr(self, "sym", False):
            cwd = os.path.join(self.root, "elsewhere") if elsewhere else self.root
            return cwd, (os.path.join("..", "link", "..", "f.blm") if elsewhere else os.path.join("link", "..", "f.blm"))
        if style == "sym":
            style = "rel"
        if style in ("rel", "sub") and not elsewhere:
            cwd = self.root
            return cwd, os.path.relpath(self.fileabs, cwd)
        if style in ("rel", "sub"):
            cwd = os.path.join(self.root, "elsewhere")
            return cwd, os.path.relpath(self.fileabs, cwd)
        cwd = os.path.join(self.root, "elsewhere") if elsewhere else self.root
        return cwd, (Path(self.fileabs) if style == "path" else self.fileabs)


def read_file(ctx, path, what):
    """read the backing file; a missing file is a failure of the property (the library wrote somewhere else), not a harness error"""
    if not os.path.exists(path):
        ctx.fail("C11.snapshot", f"{what}: no file at {path} - the backing file is not where the constructor was told to put it")
    with open(path, "rb") as f:
        return f.read()


def snapshot_ok(ctx, raw, geo, before_bits, after_bits, completed, inflight, what, stale=None):
    m, bl, est, fpr32 = geo
    name = "C11.snapshot"
    ctx.check(name, len(raw) == bl + 20, lambda: f"{what}: file length {len(raw)} != {bl}+20")
    e, cnt, f = FOOT.unpack(raw[-20:])
    ctx.check(name, e == est and f == fpr32, lambda: f"{what}: footer est/fpr {(e, f)} != {(est, fpr32)}")
    bits = raw[:bl]
    bi, lo, hi = int.from_bytes(bits, "little"), int.from_bytes(before_bits, "little"), int.from_bytes(after_bits, "little")
    ctx.check(name, bi & lo == lo, f"{what}: a bit of a completed addition is missing from the file")
    ctx.check(name, bi | hi == hi, f"{what}: the file has a bit no completed or in-flight addition sets")
    # the count may lag behind the addition in flight, never run ahead of it: completed+1 only once all its bits are in the file
    ok = cnt == completed or (inflight and cnt == completed + 1 and bits == after_bits) or (stale is not None and cnt == stale)
    ctx.check(name, ok, lambda: f"{what}: stored count {cnt}, completed additions {completed}, add in flight: {inflight}, "
                                f"in-flight bits all present: {bits == after_bits}")
    return bits, cnt


def replay(case, root, ctx=None, kill_at=None, collect=None):
    """Drive the history.  In the parent (ctx given) every traced op is validated line by line; in a child (kill_at given) the
    last op is traced only to SIGKILL at the requested event."""
    from probables import BloomFilter, BloomFilterOnDisk

    hf = hash_by_name(case["hash"])
    pool = [dk(k) for k in case["pool"]]
    if case["est"] > 5000:
        case = dict(case, ops=case["ops"][:3])  # every snapshot reads the whole file: keep large geometries short
    W = World(root)
    W.place(case["loc"])
    cwd, arg = W.arg(case["loc"], case["elsewhere"])
    os.chdir(cwd)
    nx = "C11.no_exception"
    call = (lambda fn, *a, **k: fn(*a, **k)) if ctx is None else (lambda fn, *a, **k: ctx.call(nx, fn, *a, **k))
    o = call(BloomFilterOnDisk, arg, case["est"], case["fpr"], hash_function=hf)
    ref = BloomFilter(case["est"], case["fpr"], hash_function=hf)
    geo = (ref.number_bits, ref.bloom_length, ref.estimated_elements, ref.false_positive_rate)
    keys = []
    ops = case["ops"]
    feats = set()
    stale = [0]  # the count most recently written to the file: after an assignment through the elements_added setter the file may
    # keep showing it until the next add / close / export / clear rewrites the footer
    nsnap = [0]
    digests = set()
    for oi, op in enumerate(ops):
        last = oi == len(ops) - 1
        kind = op[0]
        before = bytes(bytearray(ref.bloom[: ref.bloom_length]))
        completed = ref.elements_added
        if kind == "add":
            k = pool[op[1] % len(pool)]
            if len(op) > 2:
                # the precomputed-hash entry point with a list computed for a LARGER depth (hash once, feed several filters): only the
                # first number_hashes entries select bits - in the file exactly as in the in-memory reference
                hs = ref.hashes(k, ref.number_hashes + 2)
                ref.add_alt(list(hs))
                after = bytes(bytearray(ref.bloom[: ref.bloom_length]))
                fn, args, inflight = o.add_alt, (list(hs),), True
                feats.add("add_alt_longer_list")
            else:
                ref.add(k)
                after = bytes(bytearray(ref.bloom[: ref.bloom_length]))
                fn, args, inflight = o.add, (k,), True
        elif kind == "reopen":
            after = before
            fn, args, inflight = o.close, (), False
        elif kind == "export":
            after = before
            tcwd, _ = W.arg(op[1], op[2])
            target = os.path.join(W.root, "copy%d.blm" % oi)
            targ = os.path.relpath(target, tcwd) if op[1] == "rel" else (Path(target) if op[1] == "path" else target)
            os.chdir(tcwd)
            fn, args, inflight = o.export, (targ,), False
        elif kind == "export_self":
            # export() naming the filter's OWN backing file, in any spelling (the relative name it was created with, from another
            # directory, through a symlink): a no-op or a refusal (shutil.SameFileError) - either way the file stays the live
            # backing file, which the snapshots of this and of every later operation verify
            after = before
            # (the "~/" spelling is understood where the library resolves paths - constructors and loaders; an export TARGET is
            # taken literally by the on-disk filter, so it is not used here)
            tcwd, targ = W.arg(op[1] if op[1] != "home" else "abs", op[2])
            os.chdir(tcwd)

            def fn(t=targ, oo=o):
                import shutil
                try:
                    oo.export(t)
                except shutil.SameFileError:
                    feats.add("export_self_refused")
            args, inflight = (), False
            feats.add("export_self")
        elif kind == "setcount":
            # the documented setter: the same assignment on the reference filter; the file may keep the old count until the next
            # add / close / export rewrites the footer, from then on it must be the assigned value (+ later adds)
            ref.elements_added = op[1]
            o.elements_added = op[1]
            if ctx is not None:
                ctx.op("setcount", op[1])
                feats.add("setcount")
            continue
        else:  # clear: an explicit forget, not a crash-point subject
            call(o.clear)
            ref.clear()
            stale[0] = 0
            keys = []
            if ctx is not None:
                raw = read_file(ctx, W.fileabs, "snapshot")
                z = bytes(ref.bloom_length)
                snapshot_ok(ctx, raw, geo, z, z, 0, False, f"after clear (op {oi})")
                ctx.op("clear")
            continue
        if ctx is None:
            if last and kill_at is not None:
                def hook(i):
                    if i == kill_at:
                        os.kill(os.getpid(), signal.SIGKILL)
                Tracer(hook).run(fn, *args)
                os._exit(3)  # fewer events than expected
            fn(*args)
        else:
            snaps = [] if (last and collect is not None) else None

            def hook(i):
                raw = read_file(ctx, W.fileabs, "snapshot")
                nsnap[0] += 1
                bits, cnt = snapshot_ok(ctx, raw, geo, before, after, completed, inflight, f"op {oi} {kind} line event {i}", stale[0])
                if snaps is not None:
                    snaps.append(raw)
                if inflight and ((bits != before and cnt == completed) or (bits == before and cnt == completed + 1 and before != after)):
                    feats.add("snapshot_inside_add")
                    digests.add((oi, i))
                if i % 8 == 0:
                    g = BloomFilter.frombytes(raw, hf)
                    ctx.check("C11.loads", all(g.check(x) for x in keys), f"op {oi} {kind} line event {i}: loaded snapshot misses a completed key")

            tr = Tracer(hook)
            ctx.call(nx, tr.run, fn, *args)
            if snaps is not None:
                collect.extend(snaps)
            feats.add("traced_" + kind)
        if kind == "add":
            keys.append(k)
        stale[0] = ref.elements_added  # add / close / export rewrote the footer
        # state after the operation
        if ctx is not None:
            raw = read_file(ctx, W.fileabs, "snapshot")
            snapshot_ok(ctx, raw, geo, after, after, ref.elements_added, False, f"after op {oi} {kind}")
        if kind == "reopen":
            if ctx is not None:
                raw = read_file(ctx, W.fileabs, "snapshot")
                ctx.check("C11.closed_equals_memory", raw == bytes(ref), lambda: f"after close (op {oi}): file differs from the in-memory export: "
                                                                                  f"{raw[-20:].hex()} vs {bytes(ref)[-20:].hex()}")
                g = ctx.call(nx, BloomFilter, filepath=W.fileabs, hash_function=hf)
                ctx.check("C11.loads", all(g.check(x) for x in keys) and g.elements_added == ref.elements_added, "closed file loads differently")
            cwd, arg = W.arg(op[1], op[2])
            os.chdir(cwd)
            if ctx is not None and oi % 2 == 0:
                # a constructor call on the existing file that is REFUSED (sizing the library rejects) must not have touched the file
                held = read_file(ctx, W.fileabs, "before a refused constructor call")
                try:
                    BloomFilterOnDisk(arg, max(1, case["est"]), 2.0, hash_function=hf)
                    feats.add("unusable_rate_accepted")
                except Exception:  # noqa  which exception is raised is not specified
                    now = read_file(ctx, W.fileabs, "after a refused constructor call")
                    ctx.check("C11.closed_equals_memory", now == held,
                              lambda: f"a REFUSED BloomFilterOnDisk(path, est, 2.0) call on the closed backing file changed it ({len(held)} -> {len(now)} bytes)")
                    feats.add("refused_constructor_on_existing_file")
            o = call(BloomFilterOnDisk, arg, hash_function=hf)
            if ctx is not None:
                ctx.check("C11.reopen", all(o.check(x) for x in keys), lambda: f"reopened ({op[1]}, elsewhere={op[2]}) filter misses an added key")
                ctx.check("C11.reopen", o.elements_added == ref.elements_added,
                          lambda: f"reopened filter elements_added {o.elements_added} != {ref.elements_added}")
                ctx.check("C11.reopen", (o.number_bits, o.number_hashes, o.estimated_elements) == (ref.number_bits, ref.number_hashes, ref.estimated_elements), "geometry")
                feats.add("reopen_%s%s" % (op[1], "_elsewhere" if op[2] else ""))
                ctx.op("reopen", op[1], op[2])
        elif kind == "export" and ctx is not None:
            src = read_file(ctx, W.fileabs, "export source")
            ctx.check("C11.export", os.path.exists(target), lambda: f"export({targ!r}) from cwd {os.getcwd()} produced no file")
            cp = open(target, "rb").read()
            ctx.check("C11.export", cp == src == bytes(ref), "exported copy differs from the backing file / in-memory export")
            g = ctx.call(nx, BloomFilter, filepath=target, hash_function=hf)
            ctx.check("C11.export", all(g.check(x) for x in keys) and g.elements_added == ref.elements_added, "exported copy loads differently")
            feats.add("export_%s%s" % (op[1], "_elsewhere" if op[2] else ""))
            ctx.op("export", op[1], op[2])
        elif kind == "add" and ctx is not None:
            ctx.op("add", op[1] % len(pool))
    # final close keeps everything
    call(o.close)
    if ctx is not None:
        raw = read_file(ctx, W.fileabs, "snapshot")
        ctx.check("C11.closed_equals_memory", raw == bytes(ref), "after the final close the file differs from the in-memory export")
        cwd, arg = W.arg("abs", True)
        os.chdir(cwd)
        o2 = call(BloomFilterOnDisk, arg, hash_function=hf)
        ctx.check("C11.reopen", all(o2.check(x) for x in keys) and o2.elements_added == ref.elements_added, "final reopen loses keys or count")
        call(o2.close)
        raw2 = read_file(ctx, W.fileabs, "after reopen+close")
        ctx.check("C11.reopen", raw2 == raw, "a close right after reopening changed the file")
    return feats, nsnap[0], digests, geo


def _normal_exit_variant(case, ctx, root):
    """The same kind of history in a FRESH interpreter that exits normally (finalizers and exit handlers run): filters are also
    abandoned without close() ('drop', handled by __del__ per the documentation) and the file re-opened; after the process is gone
    the file must be the in-memory export of the same history."""
    import json
    import subprocess

    from probables import BloomFilter

    os.makedirs(root, exist_ok=True)
    path = os.path.join(root, "f.blm")
    ops = []
    for i, op in enumerate(case["ops"]):
        if op[0] == "add":
            ops.append(["add", op[1]])
        elif op[0] == "reopen":
            ops.append(["drop"] if i % 2 == 0 else ["reopen"])
        elif op[0] == "clear":
            ops.append(["clear"])
        elif op[0] == "setcount":
            ops.append(["setcount", op[1]])
    if not any(o[0] == "drop" for o in ops):
        ops.insert(len(ops) // 2, ["drop"])
    spec = {"est": min(case["est"], 200), "fpr": case["fpr"], "hash": case["hash"], "pool": case["pool"], "path": path, "ops": ops}
    cfile = os.path.join(root, "case.json")
    with open(cfile, "w") as f:
        json.dump(spec, f)
    here = os.path.dirname(os.path.dirname(os.path.abspath(__file__)))
    r = subprocess.run([sys.executable, "-B", os.path.join(here, "vlib", "c11_child.py"), cfile], capture_output=True, text=True,
                       env=dict(os.environ, VERIF_REPO=REPO), timeout=300)
    ctx.check("C11.no_exception", r.returncode == 0, lambda: f"history in a fresh interpreter exited with {r.returncode}: {r.stderr[-300:]}")
    hf = hash_by_name(case["hash"])
    pool = [dk(k) for k in case["pool"]]
    ref = BloomFilter(spec["est"], spec["fpr"], hash_function=hf)
    for op in ops:
        if op[0] == "add":
            ref.add(pool[op[1] % len(pool)])
        elif op[0] == "clear":
            ref.clear()
        elif op[0] == "setcount":
            ref.elements_added = op[1]
    raw = read_file(ctx, path, "after the process exited")
    want = bytes(ref)
    ctx.check("C11.closed_equals_memory", raw == want,
              lambda: f"after a normal interpreter exit the file differs from the in-memory export of the same history: "
                      f"footer {FOOT.unpack(raw[-20:]) if len(raw) >= 20 else raw!r} vs {FOOT.unpack(want[-20:])} (ops {ops})")
    ctx.feat("normal_exit_children")


def _readonly_variant(case, ctx, root):
    """A backing file the process may not write to (mode 0444, opened by an unprivileged child: uid 65534 when the harness runs as
    root).  Either the open is refused - the file is untouched - or it is accepted, and then what is added through that handle must be
    in the file after close() like anywhere else: the file is compared with the in-memory export of the same history."""
    from probables import BloomFilter, BloomFilterOnDisk

    os.makedirs(root, exist_ok=True)
    d = os.path.realpath(root)
    while d not in ("/", "/tmp") and os.path.dirname(d) != d:
        try:
            os.chmod(d, os.stat(d).st_mode | 0o055)
        except OSError:
            break
        d = os.path.dirname(d)
    path = os.path.join(root, "ro.blm")
    hf = hash_by_name(case["hash"])
    pool = [dk(k) for k in case["pool"]]
    est = min(case["est"], 200)
    adds = [op[1] % len(pool) for op in case["ops"] if op[0] == "add"] or [0]
    first, second = adds[: len(adds) // 2], adds[len(adds) // 2:]
    f = BloomFilterOnDisk(path, est, case["fpr"], hash_function=hf)
    ref = BloomFilter(est, case["fpr"], hash_function=hf)
    for i in first:
        f.add(pool[i])
        ref.add(pool[i])
    f.close()
    before = open(path, "rb").read()
    os.chmod(path, 0o444)
    pid = os.fork()
    if pid == 0:
        code = 9
        try:
            if os.geteuid() == 0:
                os.setgroups([])
                os.setgid(65534)
                os.setuid(65534)
            try:
                g = BloomFilterOnDisk(path, hash_function=hf)
            except Exception:  # noqa  refused: fine
                os._exit(10)
            try:
                for i in second:
                    g.add(pool[i])
                ok = all(g.check(pool[i]) for i in second)
                g.close()
            except Exception:  # noqa  refused at the first write / at close: fine as long as the file is one of the two exports
                os._exit(11)
            code = 0 if ok else 12
        finally:
            os._exit(code)
    _, status = os.waitpid(pid, 0)
    code = os.WEXITSTATUS(status) if os.WIFEXITED(status) else -1
    os.chmod(path, 0o644)
    raw = read_file(ctx, path, "read-only backing file after the unprivileged process")
    if code == 10:
        ctx.check("C11.closed_equals_memory", raw == before, "a refused open of a read-only backing file changed the file")
        ctx.feat("readonly_file_refused")
    elif code == 0:
        for i in second:
            ref.add(pool[i])
        want = bytes(ref)
        ctx.check("C11.closed_equals_memory", raw == want,
                  lambda: f"a handle on a read-only (0444) backing file accepted {len(second)} additions, reported them present and closed "
                          f"normally, but the file does not hold them: footer {FOOT.unpack(raw[-20:]) if len(raw) >= 20 else raw!r} vs "
                          f"{FOOT.unpack(want[-20:])}, bits equal: {raw[:-20] == want[:-20]}")
        ctx.feat("readonly_file_accepted")
    elif code == 11:
        ctx.check("C11.closed_equals_memory", raw == before or len(raw) == len(before), "read-only backing file damaged by a refused write")
        ctx.feat("readonly_file_write_refused")
    else:
        ctx.check("C11.no_exception", code == 0, f"unprivileged child on a read-only backing file ended with code {code}")


def run_case(case, ctx):
    home = os.environ.get("HOME")
    try:
        _run_case(case, ctx)
    finally:
        if home is None:
            os.environ.pop("HOME", None)
        else:
            os.environ["HOME"] = home


def _run_case(case, ctx):
    root = ctx.tmpdir()
    collect = []
    thorough = ctx.tier == "thorough"
    want_kill = (case["kill"] <= 2) if thorough else (case["kill"] == 0)
    last_kind = case["ops"][-1][0]
    do_kill = want_kill and last_kind in ("add", "reopen", "export", "export_self")
    feats, nsnap, digests, geo = replay(case, os.path.join(root, "main"), ctx=ctx, collect=collect if do_kill else None)
    if do_kill and collect:
        idxs = list(range(len(collect)))
        if not thorough and len(idxs) > 12:
            step = len(idxs) / 12.0
            idxs = sorted({int(i * step) for i in range(12)} | {len(idxs) - 1})
        for i in idxs:
            kroot = os.path.join(root, "kill%d" % i)
            os.makedirs(kroot)
            pid = os.fork()
            if pid == 0:
                try:
                    replay(case, kroot, kill_at=i)
                finally:
                    os._exit(4)
            _, status = os.waitpid(pid, 0)
            killed = os.WIFSIGNALED(status) and os.WTERMSIG(status) == signal.SIGKILL
            ctx.check("C11.kill", killed, f"child for line event {i} was not killed (status {status})")
            loc = os.path.join(os.path.realpath(kroot), {"sub": "sub", "sym": "real"}.get(case["loc"], ""), "f.blm")
            ctx.check("C11.kill", os.path.exists(loc), lambda: f"after a real SIGKILL at line event {i} there is no backing file at {loc}")
            raw = open(loc, "rb").read()
            ctx.check("C11.kill", raw == collect[i], lambda: f"file left by a real SIGKILL at line event {i} differs from the in-process snapshot")
            ctx.feat("real_sigkills")
        feats.add("kill_variant")
    if case["kill"] == 1 or (thorough and case["kill"] == 3):
        _normal_exit_variant(case, ctx, os.path.join(root, "exitrun"))
        feats.add("normal_exit_variant")
    if case["kill"] == 2:
        _readonly_variant(case, ctx, os.path.join(root, "ro"))
        feats.add("readonly_file_variant")
    for f in feats:
        ctx.feat(f)
    ctx.feat("snapshots", nsnap)
    ctx.feat("m%%8=%d" % (geo[0] % 8))
    ctx.nt("snapshot_inside_add" in feats)
    ctx.feat("inside_add_snapshot_triples", len(digests))
    ctx.trace.insert(0, [case["est"], case["fpr"], case["hash"], case["loc"], case["elsewhere"], case["pool"]])
