"""C02 - count-min estimate is never below the true count nor above the total."""
import itertools

from vlib.drivers import cms as drv

ID = "C02"
LEVEL = "exploration"
ORACLES = {
    "C02.bounds": "after every step, for EVERY pool key (added or not): true[k] <= check(k) <= elements_added; "
                  "elements_added == sum of outstanding amounts; `in` agrees with check != 0",
    "C02.retval": "the value returned by add/remove equals check(key) immediately afterwards",
    "C02.exact": "a key that shares no counter (harness computes hashes(key)[i] % width + i*width) with any other key ever added is "
                 "estimated exactly",
    "C02.no_exception": "no add/remove/check raises",
}
RULE = ("Hypothesis draws CountMinSketch (3/4) or StreamThreshold (1/4, same min query) with width 1..8 (mostly <= 3, sometimes to 64) "
        "and depth 1..5 or a (confidence, error_rate) sizing, one of 12 hash strategies (incl. degenerate colliding ones), a pool of "
        "2-8 keys, and 3-40 ops add(key, n) (n mostly 1..5, sometimes to 2^20) / remove(key, n) with n resolved to 1 + tape % "
        "outstanding(key) (a remove with nothing outstanding becomes an add); totals stay below 2^31-1. Exhaustive slice: width 1..3 x "
        "depth 1..2 x every history of length <= L over 3 keys x {add 1, add 2, remove} (L=4 quick, 5 thorough). Non-trivial = some "
        "step where a positive key has every one of its counters shared with another positive key, or a removal while another key "
        "shares a counter. Distinct by resolved history.")
ASSUMPTIONS = ["only the stated bounds are asserted, no exact per-cell model (a conservative-update sketch would also pass)"]
MANIFEST = {
    "technique": "model-based property testing: generated add/remove histories against a Counter of true counts; exhaustive tiny "
                 "sketches",
    "level_text": "Exploration: bounds checked for every pool key after every step on tiny, heavily colliding sketches (the case the "
                  "suite never builds); all histories up to length 4/5 on widths 1..3 enumerated.",
    "level_note": "Trusted: Counter model; harness recomputes cell indices from the supplied hash strategy for the exactness oracle.",
}
P = {"bounds": "C02.bounds", "retval": "C02.retval", "exact": "C02.exact"}


def budget(tier):
    return {"cases": 16 * 250 if tier == "quick" else 16 * 6000}


def strategy(tier):
    return drv.case_strategy(tier, classes=("cms", "cms", "cms", "st"), extra_ops=True)


def exhaustive(tier):
    L = 4 if tier == "quick" else 5
    alphabet = [["add", k, n] for k in range(3) for n in (1, 2)] + [["remove", k, 0] for k in range(3)]

    def gen():
        for w in (1, 2, 3):
            for d in (1, 2):
                for n in range(1, L + 1):
                    for combo in itertools.product(alphabet, repeat=n):
                        yield {"cls": "cms", "w": w, "d": d, "hash": "default", "pool": ["s:a", "s:b", "b:00"],
                               "hitters": 1, "threshold": 1, "ops": [list(o) for o in combo]}

    return [("all_histories_len<=%d_w1-3_d1-2" % L, gen)]


def run_case(case, ctx):
    d = drv.CmsDriver(case, ctx, P)
    d.run()
    ctx.nt("full_collision" in d.feats or "remove_in_colliding_sketch" in d.feats)
    ctx.trace.insert(0, [case["cls"], case.get("w"), case.get("d"), case.get("conf"), case.get("err"), case["hash"], case["pool"]])
