"""C07 - derived sizes honour the requested accuracy and are stable across reloads."""
import math
import struct

from hypothesis import strategies as st

ID = "C07"
LEVEL = "exploration"
EPS = 1e-9
ORACLES = {
    "C07.bloom_fpr32": "reported false_positive_rate is the request narrowed to a 32-bit float",
    "C07.bloom_bits": "number_bits within [ceil(x(1-1e-9)), ceil(x(1+1e-9))], x = -n ln(p32)/ln^2 2",
    "C07.bloom_hashes": "number_hashes == round(ln2*m/n) (either neighbour within 1e-9 of .5) and >= 1",
    "C07.bloom_theoretical_fpr": "(1-e^{-kn/m})^k <= 1.07 * p32",
    "C07.bloom_lengths": "bloom_length == ceil(m/8) (m cells for counting), export_size == cells*cellsize+20 == len(bytes())",
    "C07.bloom_stable": "same inputs -> same geometry; re-sizing from the reported values and export+load give the identical geometry",
    "C07.accepts": "clearly valid requests (1 <= n <= 1e6, 1e-30 <= p <= 0.5) are accepted",
    "C07.cms": "2/width <= error_rate and 1 - 2^-depth >= confidence (1e-12 relative tolerance); stable; reload keeps (width, depth)",
    "C07.cuckoo": "2*bucket_size/2^fingerprint_bits <= error_rate (1e-12 rel.); stable; load_error_rate/frombytes reproduce the bits",
}
RULE = ("Configurations only. Bloom: n from {1..300, log-uniform to 1e12}, p from {i/2000, 10^-u (u<=44), powers of "
        "two, float32 rounding midpoints +-1 ulp, values within 1e-7 of 0 and 1}; real constructors (BloomFilter, "
        "CountingBloomFilter, BloomFilterOnDisk) when m <= 2^22 bits, otherwise the library's sizing routine. "
        "Count-min: (confidence, error_rate) in (0,1)^2 with error_rate >= 1e-4, confidence <= 1-1e-9 (incl. tiny "
        "confidences). Cuckoo: init_error_rate(e, bucket_size 1..8) with e >= 2b/2^32. Exhaustive grid slice: every "
        "n in 1..N x p = i/G (N=300,G=400 quick; N=2000,G=2000 thorough). Parameters the constructor rejects are "
        "counted, not judged (except the clearly valid box of C07.accepts). Non-trivial = accepted configuration; "
        "distinct by (kind, n, p32) / (w, d) / (b, bits).")
ASSUMPTIONS = ["1e-9 relative tolerance on the bit count (library and C original use a 13-digit constant for ln^2 2)",
               "real allocation only up to 2^22 bits; above that the classmethod BloomFilter._get_optimized_params is "
               "used as 'the sizing routine' (skipped and counted if it does not exist)"]
MANIFEST = {
    "technique": "property-based testing over configurations (Hypothesis) + exhaustive (n, p) grid, closed-formula oracle",
    "level_text": "Exploration of the configuration space with a closed-formula oracle computed independently in double "
                  "precision; an (n, p=i/G) grid is enumerated completely (slice flagged in evidence), the rest sampled, "
                  "with generators aimed at float32 rounding midpoints, powers of two and the extremes.",
    "level_note": "Trusted: the formulas in checks/c07_sizing.py, IEEE doubles, struct 'f' narrowing. Tolerances stated in "
                  "ORACLES. n up to 1e12 only through the sizing routine.",
}

LN2 = math.log(2.0)
LN2SQ = LN2 * LN2


def f32(x):
    return struct.unpack("f", struct.pack("f", float(x)))[0]


def budget(tier):
    return {"cases": 16 * 900 if tier == "quick" else 16 * 40000}


def _midpoints():
    # doubles right at / next to the midpoint between two adjacent float32 values
    def mk(x):
        a = f32(x)
        b = struct.unpack("f", struct.pack("I", struct.unpack("I", struct.pack("f", a))[0] + 1))[0]
        mid = (a + b) / 2
        return st.sampled_from([mid, math.nextafter(mid, 0.0), math.nextafter(mid, 1.0), a, b])

    return st.floats(1e-12, 0.99).flatmap(mk)


def p_st():
    return st.one_of(
        st.integers(1, 1999).map(lambda i: i / 2000),
        st.floats(0.0, 44.0).map(lambda u: 10 ** -u),
        st.integers(1, 100).map(lambda e: 2.0 ** -e),
        _midpoints(),
        st.floats(1e-9, 1e-7).map(lambda d: 1 - d),
        st.floats(1e-46, 1e-38),
        st.floats(min_value=0.0, max_value=1.0, exclude_min=True, exclude_max=True),
    )


def n_st():
    return st.one_of(st.integers(1, 300), st.integers(1, 20),
                     st.floats(0, 12).map(lambda u: max(1, int(10 ** u))),
                     # a fractional estimate (len(items) * 1.5): accepted by the constructors and used as it is by the formulas
                     st.tuples(st.integers(1, 3000), st.sampled_from([0.5, 0.25, 0.4, 0.9, 0.1])).map(lambda t: t[0] + t[1]))


def strategy(tier):
    bloom = st.fixed_dictionaries({"t": st.just("bloom"), "n": n_st(), "p": p_st(),
                                   "cls": st.sampled_from(["bloom", "bloom", "counting", "ondisk"])})
    cms = st.fixed_dictionaries({
        "t": st.just("cms"),
        "conf": st.one_of(st.floats(0.0, 1.0, exclude_min=True, exclude_max=True).filter(lambda c: c <= 1 - 1e-9),
                          st.floats(0, 9).map(lambda u: 1 - 10 ** -u), st.floats(0, 30).map(lambda u: 10 ** -u),
                          st.integers(1, 30).map(lambda d: 1 - 2.0 ** -d),
                          # just above / below a 1 - 2^-k boundary: one row more is needed for the slightest excess
                          st.tuples(st.integers(1, 30), st.sampled_from([1e-15, 1e-13, 3e-12, 1e-11, 1e-10, 1e-9, -1e-11, -1e-13]),
                                    ).map(lambda t: min(1 - 1e-9, (1 - 2.0 ** -t[0]) * (1 + t[1])))),
        "err": st.one_of(st.floats(1e-4, 1.0, exclude_max=True), st.floats(0, 4).map(lambda u: 10 ** -u).filter(lambda e: e < 1),
                         st.integers(3, 20000).map(lambda w: 2 / w),
                         st.tuples(st.integers(3, 20000), st.sampled_from([1e-15, 1e-13, 3e-12, 1e-11, 1e-10, -1e-11, -1e-13])
                                   ).map(lambda t: (2 / t[0]) * (1 - t[1]))),
    })
    cms = st.tuples(cms, st.sampled_from([0, 0, 0, 1, 2]), st.one_of(st.none(), st.tuples(st.sampled_from(["w", "d"]), st.integers(0, 99)))
                    ).map(lambda t: dict(t[0], numtype=t[1], extra_dim=list(t[2]) if t[2] else None))
    cuckoo = st.fixed_dictionaries({"t": st.just("cuckoo"), "b": st.integers(1, 8),
                                    "u": st.floats(0.0, 9.6), "pow2": st.booleans(),
                                    "cls": st.sampled_from(["cuckoo", "counting"])})
    return st.one_of(bloom, bloom, cms, cuckoo)


def exhaustive(tier):
    N, G = (300, 400) if tier == "quick" else (2000, 2000)

    def gen():
        for n in range(1, N + 1):
            yield {"t": "grid", "n": n, "G": G}

    return [(f"bloom_grid_n<={N}_p=i/{G}", gen)]


# ------------------------------------------------------------------------------------------

def _check_geom(ctx, n, p32, m, k):
    if not (0.0 < p32 < 1.0):
        ctx.fail("C07.bloom_bits", f"n={n}: a request whose 32-bit rate is {p32!r} was accepted (number_bits {m}, number_hashes {k})")
    x = -n * math.log(p32) / LN2SQ
    lo, hi = math.ceil(x * (1 - EPS)), math.ceil(x * (1 + EPS))
    ctx.check("C07.bloom_bits", lo <= m <= hi, lambda: f"n={n} p32={p32!r}: number_bits {m} not in [{lo},{hi}]")
    y = LN2 * m / n
    ok = k in (math.floor(y + 0.5 - EPS * max(1, y)), math.floor(y + 0.5 + EPS * max(1, y)))
    ctx.check("C07.bloom_hashes", ok and k >= 1, lambda: f"n={n} p32={p32!r} m={m}: number_hashes {k}, ln2*m/n={y!r}")
    fp = (1 - math.exp(-k * n / m)) ** k
    ctx.check("C07.bloom_theoretical_fpr", fp <= 1.07 * p32,
              lambda: f"n={n} p32={p32!r} m={m} k={k}: theoretical fpr {fp!r} > 1.07*request")
    ctx.feat("k=%s" % (k if k < 8 else "8-15" if k < 16 else "16-63" if k < 64 else "64+"))
    r = fp / p32
    ctx.feat("ratio>1" if r > 1 else "ratio<=1")


def _bloom_case(case, ctx):
    from probables import BloomFilter, BloomFilterOnDisk, CountingBloomFilter

    n, p, cls = case["n"], case["p"], case["cls"]
    p32 = f32(p)
    try:
        x = -n * math.log(p32) / LN2SQ if 0 < p32 < 1 else float("inf")
    except ValueError:
        x = float("inf")
    clearly_valid = n == int(n) and 1 <= n <= 10 ** 6 and 1e-30 <= p <= 0.5
    big = not (x < 2 ** 22 and (cls != "counting" or x < 2 ** 20))
    sizing = getattr(BloomFilter, "_get_optimized_params", None)
    if big:
        if sizing is None:
            ctx.feat("skipped_no_private_sizing")
            return
        try:
            rp, k, m = sizing(n, p)
        except Exception as e:  # noqa  rejected: counted, not judged
            ctx.feat("rejected_" + type(e).__name__)
            ctx.check("C07.accepts", not clearly_valid, f"n={n} p={p!r} rejected: {e}")
            return
        ctx.feat("sizing_routine_only")
        ctx.check("C07.bloom_fpr32", rp == p32, f"p={p!r}: {rp!r} != float32 {p32!r}")
        _check_geom(ctx, n, p32, m, k)
        ctx.check("C07.bloom_stable", sizing(n, p) == (rp, k, m) and sizing(n, rp) == (rp, k, m), "re-sizing differs")
        ctx.nt()
        ctx.op("bloom-sizing", n, p32, m, k)
        return
    d = None
    try:
        if cls == "bloom":
            f = BloomFilter(n, p)
        elif cls == "counting":
            f = CountingBloomFilter(n, p)
        else:
            import os
            d = ctx.tmpdir()
            f = BloomFilterOnDisk(os.path.join(d, "f.blm"), n, p)
    except Exception as e:  # noqa  rejected: counted, not judged
        from vlib.core import innermost_is_library
        if not innermost_is_library(e):
            raise
        ctx.feat("rejected_" + type(e).__name__)
        ctx.check("C07.accepts", not clearly_valid, f"{cls} n={n} p={p!r} rejected: {type(e).__name__}: {e}")
        return
    try:
        m, k = f.number_bits, f.number_hashes
        ctx.feat("cls_" + cls)
        ctx.check("C07.bloom_fpr32", f.false_positive_rate == p32,
                  f"p={p!r}: reported {f.false_positive_rate!r} != float32 {p32!r}")
        if n == int(n):
            ctx.check("C07.bloom_fpr32", f.estimated_elements == n, "estimated_elements")
        else:
            ctx.feat("fractional_estimate")
        _check_geom(ctx, n, p32, m, k)
        cells, cs = (m, 4) if cls == "counting" else (math.ceil(m / 8), 1)
        ctx.check("C07.bloom_lengths", f.bloom_length == cells, f"bloom_length {f.bloom_length} != {cells} (m={m})")
        ctx.check("C07.bloom_lengths", f.export_size() == cells * cs + 20, f"export_size {f.export_size()} m={m}")
        mid = f32(p)
        ctx.feat("m%%8=%d" % (m % 8))
        ctx.feat("p_rounds_" + ("down" if mid < p else "up" if mid > p else "exact"))
        # stability
        f2 = BloomFilter(n, p) if cls != "counting" else CountingBloomFilter(n, p)
        ctx.check("C07.bloom_stable", (f2.number_bits, f2.number_hashes, f2.false_positive_rate) == (m, k, p32),
                  "second construction differs")
        f3 = BloomFilter(f.estimated_elements, f.false_positive_rate)
        ctx.check("C07.bloom_stable", (f3.number_bits, f3.number_hashes, f3.false_positive_rate) == (m, k, p32),
                  lambda: f"sizing the reported values again gives ({f3.number_bits},{f3.number_hashes}) != ({m},{k})")
        raw = None
        if n != int(n):
            # not exportable on the pinned tree (struct.error: the footer field is an integer): counted, not judged - but IF it can
            # be exported, the reload below must have the geometry of the original
            try:
                raw = bytes(f)
                ctx.feat("fractional_estimate_exported")
            except struct.error:
                ctx.feat("fractional_estimate_not_exportable")
                ctx.nt()
                ctx.op(cls, n, p32, m, k)
                return
            g = (CountingBloomFilter if cls == "counting" else BloomFilter).frombytes(raw)
            ctx.check("C07.bloom_stable", (g.number_bits, g.number_hashes, g.false_positive_rate, g.bloom_length) == (m, k, p32, cells),
                      lambda: f"n={n}: geometry after frombytes ({g.number_bits},{g.number_hashes}) differs from the original ({m},{k})")
        elif cells * cs <= 1 << 18:
            raw = bytes(f)
            ctx.check("C07.bloom_lengths", len(raw) == cells * cs + 20, f"len(bytes()) {len(raw)} != {cells*cs+20}")
            g = (CountingBloomFilter if cls == "counting" else BloomFilter).frombytes(raw)
            ctx.check("C07.bloom_stable",
                      (g.number_bits, g.number_hashes, g.false_positive_rate, g.estimated_elements, g.bloom_length)
                      == (m, k, p32, n, cells), "geometry after frombytes differs")
            if cls != "ondisk":
                h = (CountingBloomFilter if cls == "counting" else BloomFilter)(hex_string=f.export_hex())
                ctx.check("C07.bloom_stable", (h.number_bits, h.number_hashes, h.false_positive_rate, h.bloom_length)
                          == (m, k, p32, cells), "geometry after hex load differs")
            ctx.feat("reloaded")
        ctx.nt()
        ctx.op(cls, n, p32, m, k)
    finally:
        if cls == "ondisk":
            f.close()


def _grid_case(case, ctx):
    from probables import BloomFilter

    n, G = case["n"], case["G"]
    for i in range(1, G):
        p = i / G
        p32 = f32(p)
        try:
            f = BloomFilter(n, p)
        except Exception as e:  # noqa
            ctx.feat("rejected_" + type(e).__name__)
            ctx.check("C07.accepts", not (p <= 0.5), f"n={n} p={p!r} rejected: {e}")
            continue
        m, k = f.number_bits, f.number_hashes
        ctx.check("C07.bloom_fpr32", f.false_positive_rate == p32, f"p={p!r}")
        _check_geom(ctx, n, p32, m, k)
        ctx.check("C07.bloom_lengths", f.bloom_length == math.ceil(m / 8) and f.export_size() == f.bloom_length + 20,
                  f"n={n} p={p!r} lengths")
        ctx.feat("grid_points")
    ctx.nt()
    ctx.op("grid", n, G)


def _cms_case(case, ctx):
    from probables import CountMinSketch

    c, e = case["conf"], case["err"]
    nt_ = case.get("numtype", 0)
    if nt_:
        # the constructor accepts any numbers.Number: the same request as a Decimal / a Fraction (exact arithmetic in the oracle)
        from decimal import Decimal
        from fractions import Fraction
        conv = (lambda x: Decimal(repr(x))) if nt_ == 1 else (lambda x: Fraction(x).limit_denominator(10 ** 6))
        c, e = conv(c), conv(e)
        if not (0 < c < 1 and 0 < e < 1):
            return
        ctx.feat("cms_params_" + ("Decimal" if nt_ == 1 else "Fraction"))
    try:
        s = CountMinSketch(confidence=c, error_rate=e)
    except Exception as ex:  # noqa
        from vlib.core import innermost_is_library
        if not innermost_is_library(ex):
            raise
        ctx.feat("rejected_cms_" + type(ex).__name__)
        return
    w, d = s.width, s.depth
    if nt_:
        from fractions import Fraction
        ctx.check("C07.cms", w >= 1 and Fraction(2, w) <= Fraction(e), lambda: f"error_rate={e!r}: width {w}, 2/width={2/w!r} exceeds it")
    c0, e0 = c, e
    if nt_:
        c, e = float(c), float(e)
    ctx.check("C07.cms", w >= 1 and 2 / w <= e * (1 + 1e-12), lambda: f"error_rate={e!r}: width {w}, 2/width={2/w!r}")
    ctx.check("C07.cms", 1 - 2.0 ** -d >= c * (1 - 1e-12), lambda: f"confidence={c!r}: depth {d}, 1-2^-d={1-2.0**-d!r}")
    s2 = CountMinSketch(confidence=c0, error_rate=e0)
    ctx.check("C07.cms", (s2.width, s2.depth) == (w, d), "second construction differs")
    xd = case.get("extra_dim")
    if xd:
        # the accuracy request together with ONE of width / depth (a leftover keyword argument): whatever the constructor does
        # with the lone dimension, a sketch it hands back for (confidence, error_rate) has to honour them
        kw = {"width": 1 + xd[1] % 50} if xd[0] == "w" else {"depth": 1 + xd[1] % 3}
        try:
            s3 = CountMinSketch(confidence=c0, error_rate=e0, **kw)
        except Exception:  # noqa  refused: fine
            ctx.feat("cms_accuracy_plus_lone_dimension_refused")
        else:
            ctx.check("C07.cms", 2 / s3.width <= e * (1 + 1e-12) and 1 - 2.0 ** -s3.depth >= c * (1 - 1e-12),
                      lambda: f"confidence={c!r} error_rate={e!r} with {kw}: got width {s3.width}, depth {s3.depth}")
            ctx.feat("cms_accuracy_plus_lone_dimension")
    if w * d <= 1 << 16:
        g = CountMinSketch.frombytes(bytes(s))
        ctx.check("C07.cms", (g.width, g.depth) == (w, d), f"reloaded geometry {(g.width, g.depth)} != {(w, d)}")
        ctx.check("C07.cms", 2 / g.width <= e * (1 + 1e-12) and 1 - 2.0 ** -g.depth >= c * (1 - 1e-12), "reloaded accuracy")
    ctx.feat("cms_depth=%s" % (d if d < 4 else "4-9" if d < 10 else "10+"))
    ctx.nt()
    ctx.op("cms", c, e, w, d)


def _cuckoo_case(case, ctx):
    import os

    from probables import CountingCuckooFilter, CuckooFilter

    b = case["b"]
    lo = 2 * b / 2 ** 32
    e = 10 ** -case["u"]
    if case["pow2"]:
        e = 2.0 ** -max(0, min(31, int(case["u"] * 3.3)))
    if e < lo:
        e = lo
    if e >= 1:
        e = 0.5
    K = CuckooFilter if case["cls"] == "cuckoo" else CountingCuckooFilter
    f = K.init_error_rate(e, capacity=3, bucket_size=b, max_swaps=5)
    bits = f.fingerprint_size_bits
    ctx.check("C07.cuckoo", 1 <= bits <= 32 and 2 * b / 2 ** bits <= e * (1 + 1e-12),
              lambda: f"error_rate={e!r} bucket_size={b}: fingerprint bits {bits}, 2b/2^bits={2*b/2**bits!r}")
    ctx.check("C07.cuckoo", f.error_rate == e and f.bucket_size == b, "reported error rate / bucket size")
    f2 = K.init_error_rate(e, capacity=3, bucket_size=b, max_swaps=5)
    ctx.check("C07.cuckoo", f2.fingerprint_size_bits == bits, "second construction differs")
    f.add("some key")
    g = K.frombytes(bytes(f), error_rate=e)
    ctx.check("C07.cuckoo", (g.fingerprint_size_bits, g.bucket_size, g.capacity) == (bits, b, 3),
              lambda: f"frombytes: {(g.fingerprint_size_bits, g.bucket_size, g.capacity)} != {(bits, b, 3)}")
    d = ctx.tmpdir()
    path = os.path.join(d, "c.cko")
    f.export(path)
    h = K.load_error_rate(e, path)
    ctx.check("C07.cuckoo", (h.fingerprint_size_bits, h.bucket_size, h.capacity) == (bits, b, 3), "load_error_rate geometry")
    ctx.check("C07.cuckoo", h.check("some key") and g.check("some key"), "key lost through reload with same error rate")
    # byte-sized constructor: the reported rate is the formula of its width, and handing that reported rate back on reload
    # (the only way to re-supply the width through frombytes / load_error_rate) reproduces the width exactly
    fs = 1 + (bits % 4)
    for bb in (b, b * 3, b * 6 + 1, 43, 48):
        k = K(capacity=2, bucket_size=bb, finger_size=fs)
        ctx.check("C07.cuckoo", abs(k.error_rate - 2 * bb / 2 ** (8 * fs)) <= 1e-9 * k.error_rate,
                  lambda: f"finger_size={fs} b={bb}: error_rate {k.error_rate!r} != {2*bb/2**(8*fs)!r}")
        g2 = K.frombytes(bytes(k), error_rate=k.error_rate)
        ctx.check("C07.cuckoo", g2.fingerprint_size_bits == 8 * fs and g2.bucket_size == bb,
                  lambda: f"finger_size={fs} bucket_size={bb}: reload with the filter's own error_rate {k.error_rate!r} gives {g2.fingerprint_size_bits} bits")
    ctx.feat("cuckoo_bits=%s" % (bits if bits < 9 else "9-16" if bits < 17 else "17-32"))
    ctx.nt()
    ctx.op(case["cls"], e, b, bits)


def run_case(case, ctx):
    t = case["t"]
    if t == "bloom":
        _bloom_case(case, ctx)
    elif t == "grid":
        _grid_case(case, ctx)
    elif t == "cms":
        _cms_case(case, ctx)
    else:
        _cuckoo_case(case, ctx)
