"""C19 - queries never change a structure; clear() returns it to its initial state."""
import io
import os
from collections import Counter
from pathlib import Path

from hypothesis import strategies as st

from vlib import gen
from vlib.drivers import bloom, cbloom, cms, cuckoo, expanding, qf
from vlib.gen import dk

ID = "C19"
LEVEL = "exploration"
ORACLES = {
    "C19.readonly": "the observable state (exported bytes; counters; cuckoo bucket table; quotient-filter hash list and its print() dump of "
                    "the metadata bits; heavy-hitter / threshold tables; for on-disk filters the raw backing file) is identical before and "
                    "after EACH read-only call: check, `in`, hashes(key, depth), estimate_elements, current_false_positive_rate, export_size, "
                    "str(), bytes(), export (path / Path / file object), export_hex, export_c_header, being the ARGUMENT of union / "
                    "intersection / jaccard_index / join / merge, get_hashes, load_factor, validate_metadata, print(file=)",
    "C19.clear": "after clear(): bytes, counters, tables and all probe answers equal those of a freshly constructed object with the same "
                 "parameters, and the same follow-up operations keep the two identical",
    "C19.read_raises": "no read-only call (and no clear()) raises",
    "C19.no_exception": "(soft) an exception while BUILDING the state abandons the case; counted, not reported",
}
RULE = ("State = configuration + history from the shared drivers (Bloom, on-disk, expanding, rotating, counting Bloom, CountMinSketch, "
        "HeavyHitters, StreamThreshold, both cuckoo filters, quotient filter); then 3-12 generated read-only calls with present and absent "
        "keys, the full observable state being compared before/after each; then, where clear() exists (Bloom, on-disk, counting Bloom, "
        "count-min family), clear() and a comparison with a fresh object followed by 0-5 common follow-up operations. Property setters "
        "(query_type, elements_added, auto_expand, ...) are mutators and not in the read-only set. Non-trivial = non-empty state and >= 3 "
        "distinct read-only calls including one absent-key query. Distinct by (structure, resolved history, reads). Also: look-ups that "
        "FAIL (a key no strategy digests) with the state compared around them; the element counter assigned 0 before clear() or a value at / "
        "above the 64-bit limit before the exports; for the count-min family a BLIND TWIN (two sketches get the same updates, one is queried "
        "in every way after each update, the other never: both must end up observably equal - nine runs per case, eight with unit amounts "
        "and re-labelled keys); a deterministic slice of LARGE structures (cell arrays beyond 64 Ki entries / 1 MiB) and of quotient-filter "
        "layouts with long runs.")
ASSUMPTIONS = ["set-operation results whose cells are all set cannot be exported (open finding KF_SATURATED_SETOP, C05) and are skipped here",
               "mean-min queries on width-1 sketches divide by zero and are outside the domain"]
MANIFEST = {
    "technique": "property-based testing of observational purity: state snapshots around every generated read-only call on generated "
                 "reachable states; differential comparison of clear() against a fresh object",
    "level_text": "Exploration over all structures and their read-only API surface on reachable states; the complete observable state is "
                  "snapshotted before and after each call.",
    "level_note": "Trusted: the snapshot functions in checks/c19_readonly.py (they use the public API only).",
}


def budget(tier):
    return {"cases": 16 * 250 if tier == "quick" else 16 * 4000}


def strategy(tier):
    def tag(t):
        return lambda c: dict(c, s=t)

    extra = st.fixed_dictionaries({
        "probes": gen.pool_st(1, 4),
        "reads": st.lists(st.tuples(st.integers(0, 40), st.integers(0, 20), st.integers(1, 9)), min_size=3, max_size=12).map(lambda l: [list(x) for x in l]),
        "follow": st.lists(st.tuples(st.integers(0, 15), st.integers(1, 4), st.booleans()), max_size=5).map(lambda l: [list(x) for x in l]),
        "other": st.lists(st.integers(0, 15), max_size=5),
        "zero_before_clear": st.sampled_from([0, 0, 1]),
        "huge_count": st.sampled_from([0, 0, 0, 0, 0, 0, 0, 0, 1, 2, 6, 7]),
    })
    base = st.one_of(
        bloom.case_strategy(tier, max_ops=20).map(tag("bloom")),
        bloom.case_strategy(tier, max_ops=20).map(tag("bloom")),
        expanding.case_strategy(tier, rot=False, max_ops=25).map(tag("exp")),
        expanding.case_strategy(tier, rot=True, max_ops=25).map(tag("exp")),
        cbloom.case_strategy(tier, max_ops=20).map(tag("cbloom")),
        cms.case_strategy(tier, classes=("cms", "hh", "st"), max_ops=20, over_remove=True).map(tag("cms")),
        cms.case_strategy(tier, classes=("st", "st", "hh"), max_ops=30, small=True).map(tag("cms")),  # tiny colliding sketches: stale table entries
        cuckoo.case_strategy(tier, max_ops=25, allow_reload=True).map(tag("cuckoo")),
        qf.case_strategy(tier, max_ops=45).map(tag("qf")), qf.case_strategy(tier, max_ops=45).map(tag("qf")),
    )
    return st.tuples(base, extra).map(lambda t: dict(t[0], **t[1]))


def exhaustive(tier):
    # structures too large for the sampled geometries to reach often: cell arrays beyond 64 Ki entries / 64 KiB / 1 MiB (anything that
    # clears, copies or exports block-wise has a last partial block here); a few fixed short histories each, then the usual reads
    # and the comparison of clear() with a fresh structure
    def gen_():
        extra = {"probes": ["s:zz", "b:00ff"], "reads": [[i, i, 1 + i % 3] for i in range(0, 30, 3)], "follow": [[0, 1, False], [2, 3, False]],
                 "other": [0, 1], "zero_before_clear": 0}
        pool = ["s:a", "s:b", "b:6363", "s:dd", "s:e"]
        for cls in ("cms", "hh", "st"):
            for conf, err in ((0.96, 0.0001), (0.999, 0.00003)):
                yield dict(extra, s="cms", cls=cls, hash="default", pool=pool, qt="min", hitters=2, threshold=3, conf=conf, err=err,
                           ops=[["add", 0, 4], ["add", 1, 2], ["add", 2, 7], ["remove", 0, 1]], alt_mode="", verify_mask=0)
        for kind, est in (("bloom", 700000), ("ondisk", 1000000), ("bloom", 9000000 if tier != "quick" else 1100000)):
            yield dict(extra, s="bloom", kind=kind, est=est, fpr=0.01, hash="default", pool=pool, ops=[["add", 0], ["add", 1], ["add", 2]],
                       stat_mask=0, alt_mode="", verify_mask=0)
        # quotient-filter layouts with a long run followed by several displaced runs (three and more quotients waiting for their
        # run to start while the table is walked): the iterator over the stored hashes must leave the metadata bits alone
        for q, auto in ((4, False), (5, True), (4, True)):
            runs = [(2, 5), (3, 1), (4, 2), (5, 1), (6, 1)]
            hs = [((qq << (32 - q)) | (r + 1)) for qq, cnt in runs for r in range(cnt)]
            yield dict(extra, s="qf", q=q, auto=auto, mlf=None if auto else 1.0, mlf_low=None, hash="default", tops=[0, 32], lows=[0, 1], pool=pool,
                       dense=False, verify_every=0, ops=[["raw_add", h] for h in hs])
        yield dict(extra, s="cbloom", t="cbloom", est=40000, fpr=0.01, hash="default", pool=pool, ops=[["add", 0, 3], ["add", 1, 1], ["remove", 0, 1]],
                   alt_mode="", verify_mask=0)

    return [("large_structures_fixed_histories", gen_)]


NX = "C19.read_raises"


class T:
    """target description: obj, snapshot function, list of read-only calls (name, fn(key, depth)), optional clear support"""


def _file(path):
    with open(path, "rb") as f:
        return f.read()


def _bloom_target(ctx, d, counting, case):
    from probables import BloomFilter, BloomFilterOnDisk, CountingBloomFilter

    o = d.obj
    kind = "counting" if counting else d.kind
    t = T()
    t.obj, t.kind = o, kind
    tmp = ctx.tmpdir()
    hf = d.hf
    hc = case.get("huge_count") or 0
    if hc and kind in ("bloom", "ondisk") and not counting and o.elements_added >= 0:
        # the documented settable element counter at / just above what the footer's unsigned 64-bit field can hold: an export of
        # such a filter may be refused (struct.error) - but refused or not, it is a query and changes nothing
        if hc == 7:
            o.elements_added = -1  # the count a saturated union / intersection result carries (open finding KF_SATURATED_SETOP)
            ctx.feat("element_counter_minus_one")
        else:
            o.elements_added = 2 ** 64 - 1 + (hc - 1)
            ctx.feat("element_counter_at_64bit_limit" if hc == 1 else "element_counter_above_64bit_limit")
    exportable = 0 <= o.elements_added <= 2 ** 64 - 1
    if not exportable:
        ctx.feat("saturated_setop_state_bytes_not_used")
    path = getattr(d, "path", None)
    backing = os.path.join(d.dir, path) if (kind == "ondisk" and path) else None
    if backing and exportable:
        # an assignment through the elements_added setter leaves the footer in the FILE behind until the next add / export / close;
        # bring it up to date once, so that the raw file can be part of the observable state below
        pre = (bytes(bytearray(o.bloom[: o.bloom_length])), o.elements_added)
        o.export(os.path.join(tmp, "settle.blm"))
        post = (bytes(bytearray(o.bloom[: o.bloom_length])), o.elements_added)
        ctx.check("C19.readonly", pre == post, lambda: f"ondisk: the first export of the history's final state changed it: elements_added "
                                                       f"{pre[1]} -> {post[1]}, cells equal: {pre[0] == post[0]}")

    def raw_cells():
        return bytes(bytearray(o.bloom[: o.bloom_length])) if not counting else o.bloom.tobytes()

    def snap():
        s = [raw_cells(), o.elements_added, o.estimated_elements,
             o.false_positive_rate, o.number_bits, o.number_hashes, o.bloom_length, o.is_on_disk]
        if backing:
            s.append(_file(backing))
        if exportable:
            s.append(bytes(o))
            s.append(raw_cells())
            s.append(o.elements_added)
        return s

    K = CountingBloomFilter if counting else BloomFilter
    pool = d.pool
    other = K(o.estimated_elements, o.false_positive_rate, hash_function=hf)
    for i in case["other"]:
        other.add(pool[i % len(pool)])
    other_disk = None
    if not counting:
        other_disk = BloomFilterOnDisk(os.path.join(tmp, "other.blm"), o.estimated_elements, o.false_positive_rate, hash_function=hf)
        for i in case["other"]:
            other_disk.add(pool[i % len(pool)])
    t.cleanup = (lambda: other_disk.close()) if other_disk is not None else (lambda: None)

    def exp_path(k, dep):
        o.export(os.path.join(tmp, "e.bin") if kind != "ondisk" else os.path.join(tmp, "copy.blm"))

    def exp_fileobj(k, dep):
        if kind == "ondisk":
            return o.export(Path(os.path.join(tmp, "copy2.blm")))
        b = io.BytesIO()
        o.export(b)
        with open(os.path.join(tmp, "f.bin"), "wb") as fh:
            o.export(fh)

    reads = [("check", lambda k, dep: o.check(k)), ("in", lambda k, dep: k in o), ("hashes", lambda k, dep: o.hashes(k, dep)),
             ("hashes_default", lambda k, dep: o.hashes(k)), ("estimate_elements", lambda k, dep: o.estimate_elements()),
             ("current_fpr", lambda k, dep: o.current_false_positive_rate()), ("export_size", lambda k, dep: o.export_size()),
             ("str", lambda k, dep: str(o)), ("arg_union", lambda k, dep: other.union(o)), ("arg_intersection", lambda k, dep: other.intersection(o)),
             ("arg_jaccard", lambda k, dep: other.jaccard_index(o)), ("recv_jaccard", lambda k, dep: o.jaccard_index(other)),
             ("recv_union", lambda k, dep: o.union(other)), ("recv_intersection", lambda k, dep: o.intersection(other))]
    if exportable:
        reads += [("bytes", lambda k, dep: bytes(o)), ("export_path", exp_path), ("export_fileobj", exp_fileobj),
                  ("export_hex", lambda k, dep: o.export_hex()),
                  ("export_c_header", lambda k, dep: o.export_c_header(os.path.join(tmp, "h.h")))]
    if not exportable:  # (above the field's range, or the -1 / negative count of a set-operation product: open findings of C05)
        import struct

        def tolerant(fn):
            def run(k, dep):
                try:
                    return fn(k, dep)
                except struct.error:
                    return None
            return run
        reads += [("bytes_unexportable", tolerant(lambda k, dep: bytes(o))), ("export_path_unexportable", tolerant(exp_path)),
                  ("export_hex_unexportable", tolerant(lambda k, dep: o.export_hex()))]
    if other_disk is not None:
        reads += [("arg_union_of_ondisk", lambda k, dep: other_disk.union(o)), ("arg_jaccard_of_ondisk", lambda k, dep: other_disk.jaccard_index(o)),
                  ("recv_union_ondisk", lambda k, dep: o.union(other_disk))]
    t.snap, t.reads = snap, reads
    t.nonempty = any(snap()[0])

    def fresh():
        if kind == "ondisk":
            return BloomFilterOnDisk(os.path.join(tmp, "fresh.blm"), o.estimated_elements, case["fpr"], hash_function=hf)
        return K(o.estimated_elements, case["fpr"], hash_function=hf)

    def view(x):
        v = [x.elements_added, x.estimated_elements, x.false_positive_rate, x.number_bits, x.number_hashes,
             bytes(bytearray(x.bloom[: x.bloom_length])) if not counting else x.bloom.tobytes(), x.estimate_elements(), x.current_false_positive_rate(),
             x.export_hex(), bytes(x)]
        return v

    def follow(x, ki, n, rem):
        k = pool[ki % len(pool)]
        return x.add(k, n) if counting else x.add(k)

    t.clear = (fresh, view, follow, (lambda x: x.close()) if kind == "ondisk" else (lambda x: None))
    return t


def _exp_target(ctx, d, case):
    o = d.obj
    t = T()
    t.obj, t.kind = o, "rot" if d.rot else "exp"
    tmp = ctx.tmpdir()

    def snap():
        s = [bytes(o), o.elements_added, o.expansions, o.estimated_elements, o.false_positive_rate]
        if d.rot:
            s += [o.current_queue_size, o.max_queue_size]
        return s

    def exp_fo(k, dep):
        with open(os.path.join(tmp, "f.bin"), "wb") as fh:
            o.export(fh)

    t.snap = snap
    t.reads = [("check", lambda k, dep: o.check(k)), ("in", lambda k, dep: k in o), ("bytes", lambda k, dep: bytes(o)),
               ("export_path", lambda k, dep: o.export(os.path.join(tmp, "e.bin"))), ("export_Path", lambda k, dep: o.export(Path(tmp) / "p.bin")),
               ("export_fileobj", exp_fo), ("expansions", lambda k, dep: o.expansions), ("hash_function", lambda k, dep: o.hash_function)]
    t.nonempty = d.effective > 0
    t.clear = None
    t.cleanup = lambda: None
    return t


def _cms_target(ctx, d, case):
    from probables import CountMinSketch

    o = d.obj
    t = T()
    t.obj, t.kind = o, d.cls
    tmp = ctx.tmpdir()
    hf = d.hf
    pool = d.pool

    def snap():
        s = [bytes(o), o.elements_added, o.width, o.depth, o.query_type, o.confidence, o.error_rate, str(o)]
        if d.cls == "hh":
            s.append(dict(o.heavy_hitters))
        if d.cls == "st":
            s.append(dict(o.meets_threshold))
        return s

    recv = CountMinSketch(width=d.w, depth=d.d, hash_function=hf)
    for i in case["other"]:
        recv.add(pool[i % len(pool)], 2)
    if d.cls == "cms" and case.get("qt") in ("mean", "mean-min") and (case["qt"] == "mean" or d.w >= 2):
        # the (settable) query type is part of the observable state: queries must leave it alone as well
        o.query_type = case["qt"]
        recv.query_type = case["qt"]
        ctx.feat("cms_query_type_" + case["qt"])

    def exp_fo(k, dep):
        b = io.BytesIO()
        o.export(b)

    t.snap = snap
    t.reads = [("check", lambda k, dep: o.check(k)), ("in", lambda k, dep: k in o), ("hashes", lambda k, dep: o.hashes(k, dep)),
               ("hashes_default", lambda k, dep: o.hashes(k)), ("str", lambda k, dep: str(o)), ("bytes", lambda k, dep: bytes(o)),
               ("export_path", lambda k, dep: o.export(os.path.join(tmp, "e.cms"))), ("export_fileobj", exp_fo),
               ("arg_join", lambda k, dep: recv.join(o)), ("check_alt", lambda k, dep: o.check_alt(o.hashes(k)))]
    t.nonempty = d.total > 0
    t.cleanup = lambda: None

    def fresh():
        from probables import HeavyHitters, StreamThreshold
        kw = {"hash_function": hf}
        if "conf" in case:
            kw.update(confidence=case["conf"], error_rate=case["err"])
        else:
            kw.update(width=case["w"], depth=case["d"])
        if d.cls == "hh":
            return HeavyHitters(num_hitters=case["hitters"], **kw)
        if d.cls == "st":
            return StreamThreshold(threshold=case["threshold"], **kw)
        f = CountMinSketch(**kw)
        f.query_type = o.query_type  # a setting of the structure, i.e. one of "the same parameters": clear() keeps it
        return f

    def view(x):
        v = [bytes(x), x.elements_added, x.width, x.depth, x.query_type, [x.check(k) for k in pool], x.confidence, x.error_rate, str(x)]
        if d.cls == "hh":
            v.append(dict(x.heavy_hitters))
        if d.cls == "st":
            v.append(dict(x.meets_threshold))
        return v

    def follow(x, ki, n, rem):
        return x.add(pool[ki % len(pool)], n)

    t.clear = (fresh, view, follow, lambda x: None)
    return t


def _blind_twin(ctx, d, case):
    _blind_twin_run(ctx, d, case, False)
    if d.cls != "cms":
        for j in range(8):  # all amounts 1, eight re-labellings of the keys: estimates tie, which is where iteration order decides
            _blind_twin_run(ctx, d, case, True, j)


def _blind_twin_run(ctx, d, case, unit, variant=0):
    """Reads must not influence the FUTURE either: two sketches get the same updates; X is queried in every possible way after each
    update (tables, estimates, strings, exports), Y is never looked at. At the end, and after further heavier keys arrive, both must
    be observably the same (what a read re-ordered or cached inside X shows up as a different eviction / entry later)."""
    from probables import CountMinSketch, HeavyHitters, StreamThreshold

    pool = d.pool
    kw = {"hash_function": d.hf}
    if "conf" in case:
        kw.update(confidence=case["conf"], error_rate=case["err"])
    else:
        kw.update(width=case["w"], depth=case["d"])

    def mk():
        if d.cls == "hh":
            return HeavyHitters(num_hitters=case["hitters"], **kw)
        if d.cls == "st":
            return StreamThreshold(threshold=case["threshold"], **kw)
        return CountMinSketch(**kw)

    X, Y = mk(), mk()
    out = Counter()

    def reads(o, k):
        o.check(k)
        _ = k in o
        str(o)
        bytes(o)
        o.hashes(k)
        if d.cls == "hh":
            _ = o.heavy_hitters
            list(o.heavy_hitters.items())
        if d.cls == "st":
            _ = o.meets_threshold
        _ = o.elements_added

    ups = []
    if unit:
        # few keys more than the table has room for, all amounts 1: keys overtake each other, tie, and get evicted all the time
        pool = pool[: max(2, min(len(pool), case.get("hitters", 2) + 2))]
    for op in case["ops"]:
        if op[0] == "add":
            ups.append((pool[(op[1] * (variant + 1) + (op[2] if variant else 0) + variant) % len(pool)], 1 if unit else min(op[2], 1000)))
        elif op[0] == "remove" and d.cls != "hh":
            k = pool[op[1] % len(pool)]
            if out[k] > 0:
                ups.append((k, -1))
                out[k] -= 1
                continue
        if op[0] == "add":
            out[pool[op[1] % len(pool)]] += min(op[2], 1000)
    ups += [(pool[ki % len(pool)], 1 if unit else n + 1) for ki, n, rem in case["follow"]]
    for k, n in ups:
        for o in (X, Y):
            if n >= 0:
                o.add(k, n)
            else:
                o.remove(k, 1)
        reads(X, k)

    def view(o):
        v = [bytes(o), o.elements_added, o.query_type]
        if d.cls == "hh":
            v.append(dict(o.heavy_hitters))
        if d.cls == "st":
            v.append(dict(o.meets_threshold))
        return v
    a, b = view(X), view(Y)
    ctx.check("C19.readonly", a == b, lambda: f"{d.cls}: a sketch that was queried after every update and one that was never looked at "
                                              f"differ after the same {len(ups)} updates: {a[2:]} vs {b[2:]}")
    ctx.feat("blind_twin_%s" % d.cls)


def _cuckoo_target(ctx, d, case):
    o = d.obj
    t = T()
    t.obj, t.kind = o, d.case["cls"]
    tmp = ctx.tmpdir()

    def snap():
        # the raw bucket table is read BEFORE (and again after) anything is exported, so an export that touches the table shows
        s = [cuckoo.snapshot(o, d.counting), o.elements_added, o.capacity, o.bucket_size, o.max_swaps, o.fingerprint_size_bits,
             o.expansion_rate, o.auto_expand]
        if d.counting:
            s.append(o.unique_elements)
        s.append(bytes(o))
        s.append(cuckoo.snapshot(o, d.counting))
        return s

    def exp_fo(k, dep):
        with open(os.path.join(tmp, "f.cko"), "wb") as fh:
            o.export(fh)

    t.snap = snap
    t.reads = [("check", lambda k, dep: o.check(k)), ("in", lambda k, dep: k in o), ("str", lambda k, dep: str(o)), ("bytes", lambda k, dep: bytes(o)),
               ("export_path", lambda k, dep: o.export(os.path.join(tmp, "e.cko"))), ("export_fileobj", exp_fo),
               ("load_factor", lambda k, dep: o.load_factor()), ("error_rate", lambda k, dep: o.error_rate),
               ("buckets", lambda k, dep: [list(b) for b in o.buckets]), ("fingerprint_size", lambda k, dep: o.fingerprint_size)]
    t.nonempty = o.elements_added > 0
    t.clear = None
    t.cleanup = lambda: None
    return t


def _qf_target(ctx, d, case):
    from probables import QuotientFilter

    o = d.obj
    t = T()
    t.obj, t.kind = o, "qf"

    def dump():
        b = io.StringIO()
        o.print(file=b)
        return b.getvalue()

    def snap():
        # the metadata dump is taken BEFORE the hash list is read, so a get_hashes() that touches the metadata is seen by the next snapshot
        return [dump(), o.elements_added, o.quotient, o.remainder, o.size, o.load_factor, o.auto_expand, o.max_load_factor, o.get_hashes(), dump()]

    recv = QuotientFilter(quotient=4, auto_expand=True, hash_function=d.hf)
    t.snap = snap
    t.reads = [("check", lambda k, dep: o.check(k)), ("in", lambda k, dep: k in o), ("check_alt", lambda k, dep: o.check_alt(d.hf_eff(k, 0))),
               ("check_alt_universe", lambda k, dep: [o.check_alt(h) for h in d.universe]), ("get_hashes", lambda k, dep: o.get_hashes()),
               ("hashes_iter", lambda k, dep: list(o.hashes())), ("load_factor", lambda k, dep: o.load_factor),
               ("validate_metadata", lambda k, dep: o.validate_metadata()), ("print", lambda k, dep: dump()),
               ("arg_merge", lambda k, dep: recv.merge(o)), ("bits_per_elm", lambda k, dep: (o.bits_per_elm, o.num_elements))]
    t.nonempty = len(d.model) > 0
    t.clear = None
    t.cleanup = lambda: None
    return t


def run_case(case, ctx):
    s = case["s"]
    d = None
    t = None
    ctx.soft_noexc = True  # state building
    try:
        if s == "bloom":
            d = bloom.BloomDriver(case, ctx, {})
            if not d.run():
                return
            if d.kind == "expanding":
                class Shim:
                    pass
                sh = Shim()
                sh.obj, sh.rot, sh.effective = d.obj, False, len(d.keys)
                t = _exp_target(ctx, sh, case)
            else:
                t = _bloom_target(ctx, d, False, case)
            pool = d.pool
        elif s == "exp":
            d = expanding.ExpandingDriver(case, ctx, {})
            d.run()
            t = _exp_target(ctx, d, case)
            pool = [d.key(i) for i in range(max(1, d.used))]
        elif s == "cbloom":
            d = cbloom.CBloomDriver(case, ctx, {})
            if not d.run():
                return
            d.kind = "counting"
            t = _bloom_target(ctx, d, True, case)
            pool = d.pool
        elif s == "cms":
            d = cms.CmsDriver(case, ctx, {"allow_over_remove": True})
            d.run()
            t = _cms_target(ctx, d, case)
            pool = d.pool
        elif s == "cuckoo":
            d = cuckoo.CuckooDriver(case, ctx, {"allow_reload": True})  # the state may be a LOADED filter
            d.run()
            t = _cuckoo_target(ctx, d, case)
            pool = d.pool
        else:
            d = qf.QFDriver(case, ctx, {}, trace=False)
            d.run()
            t = _qf_target(ctx, d, case)
            pool = d.pool
        keys = pool + [dk(k) for k in case["probes"]]
        ctx.soft_noexc = False  # the read-only calls and clear() are the subject
        used = set()
        absent_query = False
        for ri, ki, dep in case["reads"]:
            name, fn = t.reads[ri % len(t.reads)]
            k = keys[ki % len(keys)]
            before = t.snap()
            ctx.call(NX, fn, k, dep)
            after = t.snap()
            ctx.check("C19.readonly", before == after, lambda: f"{t.kind}: state changed by read-only call {name}({k!r}, {dep}): "
                                                               f"{[i for i, (a, b) in enumerate(zip(before, after)) if a != b]}")
            used.add(name)
            if name in ("check", "in", "hashes", "check_alt") and ki % len(keys) >= len(pool):
                absent_query = True
            ctx.op("read", name, ki % len(keys), dep)
        # systematic sweep: every pool key is looked up once more (check and `in`), the state compared around the whole sweep
        before = t.snap()
        for k in pool:
            ctx.call(NX, t.reads[0][1], k, 1)
            ctx.call(NX, t.reads[1][1], k, 1)
        after = t.snap()
        ctx.check("C19.readonly", before == after, lambda: f"{t.kind}: state changed by looking every pool key up (check / in): "
                                                           f"{[i for i, (a, b) in enumerate(zip(before, after)) if a != b]}")
        # look-ups that FAIL (a key no hashing strategy can digest): which exception is raised is not specified, but a failed query is
        # still a query - nothing may have changed, including settings such as the query type
        before = t.snap()
        for name, fn in t.reads:
            if name in ("check", "in"):
                try:
                    fn(None, 1)
                    ctx.feat("undigestible_key_accepted")
                except Exception:  # noqa
                    ctx.feat("failed_lookup_%s" % name)
        after = t.snap()
        ctx.check("C19.readonly", before == after, lambda: f"{t.kind}: state changed by a look-up that raised (key None): "
                                                           f"{[i for i, (a, b) in enumerate(zip(before, after)) if a != b]}")
        for name in used:
            ctx.feat("read_%s_%s" % (t.kind, name))
        nt = t.nonempty and len(used) >= 3 and absent_query
        if t.kind in ("cms", "hh", "st"):
            _blind_twin(ctx, d, case)
        if t.clear is not None:
            fresh, view, follow, fin = t.clear
            o = t.obj
            if case.get("zero_before_clear") and t.kind in ("bloom", "ondisk", "counting") and hasattr(type(o), "elements_added") \
                    and getattr(type(o).elements_added, "fset", None) is not None:
                # the documented settable element counter is assigned 0 first: counter 0 with cells set is a reachable state (it
                # is also what a sparse intersection result or a second handle on a backing file has) - clear() must still clear
                o.elements_added = 0
                ctx.feat("clear_with_zero_counter_and_cells_set" if t.nonempty else "clear_with_zero_counter")
            if case.get("zero_before_clear") and t.kind == "cms":
                # the converse state for a sketch: every cell 0 while the counter is not (an amount at the 32-bit limit added twice
                # and removed once: the cells stopped at the limit, the counter did not) - clear() must still reset the counter
                o.clear()
                o.add(pool[0], 2 ** 31 - 1)
                o.add(pool[0], 2 ** 31 - 1)
                o.remove(pool[0], 2 ** 31 - 1)
                ctx.feat("clear_with_zero_cells_and_counter_set" if not any(o._bins) and o.elements_added else "clear_after_limit_amounts")
            ctx.call(NX, o.clear)
            f = ctx.call(NX, fresh)
            try:
                a, b = view(o), view(f)
                ctx.check("C19.clear", a == b, lambda: f"{t.kind}: after clear() the structure differs from a fresh one at {[i for i, (x, y) in enumerate(zip(a, b)) if x != y]}")
                for k in keys:
                    ctx.check("C19.clear", o.check(k) == f.check(k), f"{t.kind}: probe {k!r} answers differently after clear()")
                for ki, n, rem in case["follow"]:
                    ra, rb = follow(o, ki, n, rem), follow(f, ki, n, rem)
                    a, b = view(o), view(f)
                    ctx.check("C19.clear", ra == rb and a == b, lambda: f"{t.kind}: cleared and fresh structure diverge after the same follow-up operations")
                ctx.feat("clear_%s" % t.kind)
            finally:
                fin(f)
        ctx.feat("structure_" + t.kind)
        ctx.nt(nt)
        ctx.trace.insert(0, [s, case["probes"], case["other"], case["follow"]])
    finally:
        if t is not None:
            t.cleanup()
        if s == "bloom" and d is not None:
            d.close()
