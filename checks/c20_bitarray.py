"""C20 - Bitarray behaves as a fixed-length vector of bits (DESIGN.md 3/C20)."""
import math

from hypothesis import strategies as st

ID = "C20"
LEVEL = "exploration"
ORACLES = {
    "C20.valid_op": "a valid operation returns normally, reads return the model's value",
    "C20.state": "after every operation as_string/num_bits_set/size/size_bytes/check_bit of every "
                 "position agree with the list model (so a write changed that position only)",
    "C20.rejects": "an out-of-range index or a value other than 0/1 raises IndexError/ValueError "
                   "and leaves the state unchanged",
}
RULE = ("Random tier: Hypothesis draws a size n (1..70 quick, ..200 thorough, biased to byte "
        "boundaries; 1 case in 40 uses a LARGE size 300..70000 incl. 4089/4096/8192/8193/65537 with <= 8 operations) and 1..60 operations (set_bit, clear_bit, b[i]=v with v in {0,1,True,False,2,-1,3}, "
        "check_bit, is_bit_set, b[i], clear, as_string, num_bits_set) with indices from a small per-case pool of hot positions (so writes and reads "
        "revisit positions), [-n-3, n+10], boundary and huge values; a Python list is the model. Exhaustive tier: "
        "for every n in 1..N (N=10 quick, 12 thorough), every one of the 2^n states, every operation "
        "kind at every index in [-2, n+2] and every value. Non-trivial = the history has >=1 write, "
        ">=1 rejected access and n % 8 != 0; distinct by (n, operations).")
ASSUMPTIONS = ["indices are integers or FRACTIONAL floats k+0.5 (which are outside 0..n-1 by definition and must be refused); "
               "values are integers / bools; other types are outside the property"]

VALUES = [0, 1, True, False, 2, -1, 3, 0.5, 1.5, -0.5, 1.0, 0.0]


def budget(tier):
    return {"cases": 6400 if tier == "quick" else 128000}


def strategy(tier):
    maxn = 70 if tier == "quick" else 200

    @st.composite
    def case(draw):
        n = draw(st.one_of(st.integers(1, 20), st.integers(1, maxn),
                           st.sampled_from([7, 8, 9, 15, 16, 17, 63, 64, 65])))
        big = draw(st.integers(0, 39)) == 0
        if big:  # 1 case in 40: sizes beyond any block size an implementation might process at once (few operations then)
            n = draw(st.one_of(st.sampled_from([511, 512, 513, 4088, 4089, 4096, 4097, 8191, 8192, 8193, 10000, 32768, 65537]),
                               st.integers(300, 70000),
                               # byte lengths at / next to a power of two (whole-block arithmetic, empty remainders); the larger ones up to
                               # 128 KiB / 1 MiB are enumerated by the "block_sizes" slice
                               st.tuples(st.integers(10, 13), st.sampled_from([-9, -8, -7, -1, 0, 1, 8])).map(lambda t: 8 * 2 ** t[0] + t[1])))
        top = 8 * math.ceil(n / 8)
        hot = draw(st.lists(st.one_of(st.integers(0, n - 1), st.integers(max(0, n - 70), n - 1)), min_size=1, max_size=5))
        idx = st.one_of(
            st.sampled_from(hot), st.sampled_from(hot),
            st.integers(0, n - 1),
            st.integers(-n - 3, n + 10),
            st.sampled_from([-1, 0, n - 1, n, n + 1, top - 1, top, top + 1, 2 ** 31, 2 ** 70,
                             -2 ** 40]),
            st.integers(-2, n).map(lambda k: k + 0.5),  # fractional positions: never valid
        )
        op = st.one_of(
            st.tuples(st.sampled_from(["set", "clear", "check", "isset", "get"]), idx),
            st.tuples(st.just("assign"), idx, st.sampled_from(VALUES)),
            st.tuples(st.sampled_from(["clearall", "str", "count"])),
            # a RUN of consecutive positions set one by one (whole bytes / words become all-ones)
            st.tuples(st.just("fill"), st.integers(0, max(0, n - 1)), st.sampled_from([8, 16, 63, 64, 65, 128, 130, 200])),
        )
        ops = draw(st.lists(op, min_size=1, max_size=8 if big else 60))
        # a SECOND live Bitarray of another size: every operation names its target by parity of a drawn number, the read-only
        # queries of the agreement step run on one array right after the other
        n2 = draw(st.sampled_from([0, 0, 1, 3, 8, 13, 64])) if not big else draw(st.sampled_from([0, 5]))
        who = draw(st.lists(st.integers(0, 1), min_size=len(ops), max_size=len(ops))) if n2 else []
        return {"n": n, "ops": [list(o) for o in ops], "n2": n2, "who": who}

    return case()


def exhaustive(tier):
    top = 10 if tier == "quick" else 12

    def gen():
        for n in range(1, top + 1):
            for state in range(2 ** n):
                yield {"n": n, "state": state, "exh": True}

    kmax = 17 if tier == "quick" else 20

    def blocks():
        # byte lengths 2^k (k = 10..kmax) and their neighbours, one fixed history each: writes at both ends and the middle, the
        # whole-array operations (count, clear, string), writes again - block-wise implementations meet empty / full remainders here
        for k in range(10, kmax + 1):
            for off in (-9, -8, -7, -1, 0, 1, 8):
                n = 8 * 2 ** k + off
                yield {"n": n, "n2": 0, "who": [],
                       "ops": [["set", 0], ["set", n - 1], ["assign", n // 2, 1], ["count"], ["clearall"], ["set", 1], ["assign", n - 1, 1],
                               ["clear", 1], ["str"], ["assign", n, 1]]}

    def runs():
        # completely filled arrays and long runs of ones around the 8 / 32 / 64-bit word boundaries, then single bits cleared
        for n in (8, 9, 31, 32, 33, 63, 64, 65, 127, 128, 129, 191, 192, 200, 256, 257, 1000):
            yield {"n": n, "n2": 0, "who": [],
                   "ops": [["fill", 0, n], ["count"], ["str"], ["clear", n // 2], ["count"], ["assign", n // 2, 1], ["clear", 0], ["clear", n - 1],
                           ["count"], ["fill", 0, n], ["clearall"], ["fill", max(0, n - 70), 70], ["count"]]}
            for off in (1, 7, 8, 32):
                if n > 64 + off:
                    yield {"n": n, "n2": 0, "who": [], "ops": [["fill", off, 64], ["count"], ["fill", 0, n], ["count"], ["str"]]}

    return [("all_states_all_ops_n<=%d" % top, gen), ("block_sizes_2^10..2^%d_bytes" % kmax, blocks), ("filled_arrays_and_runs_of_ones", runs)]


def _build(Bitarray, n, bits, ctx):
    b = Bitarray(n)
    for i, v in enumerate(bits):
        if v:
            b.set_bit(i)
    return b


def _agree(ctx, b, model, what, light=False):
    n = len(model)
    s = "".join(str(x) for x in model)
    def _diff():
        got = b.as_string()
        i = next((j for j, (x, y) in enumerate(zip(got, s)) if x != y), min(len(got), len(s)))
        return f"{what}: as_string differs from the model at position {i} (len {len(got)} vs {len(s)}): ...{got[max(0, i - 8): i + 8]}... != ...{s[max(0, i - 8): i + 8]}..."
    ctx.check("C20.state", b.as_string() == s, _diff)
    ctx.check("C20.state", b.num_bits_set() == sum(model), f"{what}: num_bits_set")
    ctx.check("C20.state", b.size == n and b.size_bytes == math.ceil(n / 8), f"{what}: size")
    if light:  # very large arrays: the per-position sweep runs at the start and the end of the history only
        return
    ctx.check("C20.state", [b.check_bit(i) for i in range(n)] == model, f"{what}: check_bit sweep")
    it = list(b)  # iterating a Bitarray (the sequence protocol) yields exactly its n bits
    ctx.check("C20.state", it == model, lambda: f"{what}: list(bitarray) has {len(it)} entries / differs from the {n} model bits")


def _do(b, kind, idx, val):
    def doit():
        if kind == "set":
            return b.set_bit(idx)
        if kind == "clear":
            return b.clear_bit(idx)
        if kind == "assign":
            b[idx] = val
            return None
        if kind == "check":
            return b.check_bit(idx)
        if kind == "isset":
            return b.is_bit_set(idx)
        return b[idx]
    return doit


def _apply(ctx, b, model, op):
    """apply one op to the real Bitarray and to the model; returns (wrote, rejected)"""
    n = len(model)
    kind = op[0]
    if kind == "fill":
        lo = op[1]
        hi = min(n, lo + op[2])
        for i in range(lo, hi):
            ctx.call("C20.valid_op", b.set_bit, i)
            model[i] = 1
        return hi > lo, False
    if kind in ("clearall", "str", "count"):
        if kind == "clearall":
            ctx.call("C20.valid_op", b.clear)
            for i in range(n):
                model[i] = 0
        elif kind == "str":
            r = ctx.call("C20.valid_op", b.as_string)
            ctx.check("C20.valid_op", r == "".join(map(str, model)), "as_string")
        else:
            r = ctx.call("C20.valid_op", b.num_bits_set)
            ctx.check("C20.valid_op", r == sum(model), "num_bits_set")
        return kind == "clearall", False
    idx = op[1]
    val = op[2] if kind == "assign" else None
    if isinstance(idx, float) and (kind != "assign" or not isinstance(val, float) or True):
        # a fractional position is never one of 0..n-1: it must be refused (IndexError / TypeError / ValueError), nothing may change
        status, r = ctx.lib("C20.rejects", _do(b, kind, idx, val), allow=(IndexError, ValueError, TypeError))
        ctx.check("C20.rejects", status == "exc", f"{kind} at the fractional index {idx!r} on size {n} was accepted (returned {r!r})")
        return False, True
    if kind == "assign" and isinstance(val, float) and val in (0.0, 1.0) and 0 <= idx < n:
        # the values 0 / 1 in another numeric type: taken as the bit they equal, or refused - but not refused AND changed
        status, r = ctx.lib("C20.rejects", _do(b, kind, idx, val), allow=(IndexError, ValueError, TypeError))
        if status == "ok":
            model[idx] = int(val)
            return True, False
        return False, True
    valid = 0 <= idx < n and (kind != "assign" or (val in (0, 1) and not isinstance(val, float)))

    def doit():
        if kind == "set":
            return b.set_bit(idx)
        if kind == "clear":
            return b.clear_bit(idx)
        if kind == "assign":
            b[idx] = val
            return None
        if kind == "check":
            return b.check_bit(idx)
        if kind == "isset":
            return b.is_bit_set(idx)
        return b[idx]

    if valid:
        r = ctx.call("C20.valid_op", doit)
        if kind == "set":
            model[idx] = 1
        elif kind == "clear":
            model[idx] = 0
        elif kind == "assign":
            model[idx] = 1 if val else 0
        elif kind == "isset":
            ctx.check("C20.valid_op", r is bool(model[idx]), f"is_bit_set({idx}) -> {r!r}")
        else:
            ctx.check("C20.valid_op", r == model[idx] and r in (0, 1), f"{kind}({idx}) -> {r!r}")
        return kind in ("set", "clear", "assign"), False
    status, r = ctx.lib("C20.rejects", doit, allow=(IndexError, ValueError))
    ctx.check("C20.rejects", status == "exc",
              f"{kind} idx={idx} val={val!r} on size {n} was accepted (returned {r!r})")
    return False, True


def run_case(case, ctx):
    from probables.utilities import Bitarray

    n = case["n"]
    if case.get("exh"):
        bits = [(case["state"] >> i) & 1 for i in range(n)]
        kinds = ["set", "clear", "check", "isset", "get"]
        for idx in list(range(-2, n + 3)) + [-0.5, 0.5, n - 0.5]:
            todo = [[k, idx] for k in kinds] + [["assign", idx, v] for v in VALUES]
            for op in todo:
                b = _build(Bitarray, n, bits, ctx)
                model = list(bits)
                _apply(ctx, b, model, op)
                _agree(ctx, b, model, f"n={n} state={bits} op={op}")
        for op in (["clearall"], ["str"], ["count"]):
            b = _build(Bitarray, n, bits, ctx)
            model = list(bits)
            _apply(ctx, b, model, op)
            _agree(ctx, b, model, f"n={n} state={bits} op={op}")
        ctx.feat("exh_n%%8=%d" % (n % 8))
        ctx.nt(n % 8 != 0)
        return
    b = Bitarray(n)
    model = [0] * n
    n2 = case.get("n2") or 0
    who = case.get("who") or []
    b2 = Bitarray(n2) if n2 else None
    model2 = [0] * n2
    huge = n > 100000
    _agree(ctx, b, model, "fresh")
    wrote = rejected = False
    for j, op in enumerate(case["ops"]):
        second = bool(n2) and j < len(who) and who[j] == 1
        if second:
            # the same operation on the second array (indices are taken as they are: mostly out of range there, some valid)
            w, r = _apply(ctx, b2, model2, op)
            ctx.op("second", *op)
        else:
            w, r = _apply(ctx, b, model, op)
            ctx.op(*op)
        wrote |= w
        rejected |= r
        _agree(ctx, b, model, f"after {op}", light=huge and j + 1 < len(case["ops"]))
        if n2:
            _agree(ctx, b2, model2, f"second array (size {n2}) after {op}{' on it' if second else ' on the first'}")
            _agree(ctx, b, model, f"first array again after {op}", light=huge)
    if n2:
        ctx.feat("two_live_bitarrays")
    if n % 8 == 0 and (n // 8) & (n // 8 - 1) == 0 and n >= 8192:
        ctx.feat("byte_length_power_of_two>=1KiB")
    ctx.feat("n%%8=%d" % (n % 8))
    ctx.feat("with_write" if wrote else "no_write")
    ctx.feat("with_reject" if rejected else "no_reject")
    ctx.nt(wrote and rejected and n % 8 != 0)
    ctx.trace.insert(0, ["n", n])

MANIFEST = {
    "technique": "property-based testing: model-based random operation histories (Hypothesis) against a "
                 "Python-list reference model + exhaustive enumeration of all states x operations for small sizes",
    "level_text": "Exploration. Every (size<=10, state, operation, index in [-2,n+2], value) combination is "
                  "enumerated completely in the quick tier (<=12 thorough) and compared with a list model; larger "
                  "sizes (to 200) are sampled with generated histories. Absence of violations elsewhere is not "
                  "established.",
    "level_note": "Trusted: the list model in checks/c20_bitarray.py, Hypothesis as generator. Only int indices "
                  "and int/bool values are in the domain.",
}
