"""C04 - quotient filter is an exact set of 32-bit hashes under add/remove/resize/merge."""
import itertools

from vlib.drivers import qf as drv

ID = "C04"
LEVEL = "exploration"
ORACLES = {
    "C04.set": "after every op that did not raise: every model hash answers check_alt True, every other hash of the case universe "
               "answers False; sorted(get_hashes()) == sorted(model) (hence no duplicates); size == 2**quotient; load_factor == "
               "len(model)/size; check(key)/`in` agree for str/bytes keys; merge leaves its argument unchanged",
    "C04.counter": "elements_added == len(model) after every op",
    "C04.legit_raise": "an exception is raised only where the property allows it: a NEW hash into a non-expanding filter that already holds "
                       "`size` hashes (and then it must raise), resize to a quotient outside 3..31 or with 2**quotient <= stored hashes",
    "C04.terminates": "no single library call executes more than 400 000 source lines on a <= 256-slot table (deterministic line budget; the quick tier runs untraced and re-runs a case under the line budget when it exceeds 20 s, thorough/replay/shrinking always trace)",
    "C04.no_exception": "no other exception (IndexError, AssertionError, ...) from any call",
}
RULE = ("Hypothesis draws quotient 3..5 (automatic/manual resizes reach 3..8), auto_expand on/off, optional max_load_factor "
        "(0.25/0.5/0.95/1.0), default or sha hash, and 4-60 ops: add_alt/remove_alt of STRUCTURED hashes (top byte from a pool of 2-10 "
        "neighbouring values incl. 0 and 255, low 24 bits from {0,1,2,3,x}) so that runs, clusters, shifted runs and wrap-around are the "
        "common case at every quotient size, add/remove/check of str/bytes keys, arbitrary 32-bit hashes, resize(q+d | None), "
        "merge(second built from a generated hash list with its own quotient; trimmed to fit when the receiver cannot expand). "
        "Exhaustive slice: quotient 3, universe of 16 hashes (8 quotients x 2 remainders): every ordered insertion of <= K distinct "
        "hashes followed by every single removal and re-insertion (K=3 quick, 4 thorough), plus all 8-element fills of the 8-slot table "
        "from a 9-hash universe with every removal. Non-trivial = a removal with >= 3 stored hashes within 2 quotients below the removed "
        "one (cluster), or a wrap-around layout (>= 2 hashes in the last quotient), or a resize/merge with >= 4 stored hashes. "
        "Distinct by resolved history.")
ASSUMPTIONS = ["quotients 3..8 only (remainder widths 24..29, storage type code 'L'); the other type codes are touched by "
               "regress/C04-q16.json only", "termination is decided by a line budget, i.e. a bound"]
MANIFEST = {
    "technique": "model-based property testing against a Python set with structured (collision-seeking) hash generation, exhaustive "
                 "small layouts, deterministic line-budget watchdog for termination",
    "level_text": "Exploration: the filter is compared with an exact set model (membership, non-membership, hash list, counter) after "
                  "every operation; hash values are generated so that every combination of runs/clusters/shifted runs/wrap-around "
                  "occurs on tiny tables; all insertion orders of <= 3/4 hashes from a 16-hash universe with every removal are "
                  "enumerated.",
    "level_note": "Trusted: Python set model; sys.settrace line counter. Quotient sizes above 8 are not explored apart from one "
                  "regression case per storage type code.",
}
P = {"set": "C04.set", "counter": "C04.counter", "legit": "C04.legit_raise", "term": "C04.terminates"}


def budget(tier):
    return {"cases": 16 * 400 if tier == "quick" else 16 * 3000}


def strategy(tier):
    return drv.case_strategy(tier, max_ops=60 if tier == "quick" else 120)


def exhaustive(tier):
    K = 3 if tier == "quick" else 4
    tops = [i * 32 for i in range(8)]  # one per quotient at q=3
    lows = [1, 5]

    def gen():
        uni = [(t, r) for t in range(8) for r in range(2)]
        for n in range(1, K + 1):
            for perm in itertools.permutations(uni, n):
                ops = [["add", t, r] for t, r in perm]
                for t, r in perm:
                    yield {"q": 3, "auto": False, "mlf": None, "hash": "default", "tops": tops, "lows": lows, "pool": [],
                           "ops": ops + [["remove", t, r], ["add", t, r]]}
        # completely full 8-slot table: 8 of 9 hashes in some order, then every removal
        uni9 = [(t, 0) for t in range(8)] + [(7, 1)]
        for skip in range(9):
            chosen = [u for i, u in enumerate(uni9) if i != skip]
            for rot in range(8):
                order = chosen[rot:] + chosen[:rot]
                for t, r in order:
                    yield {"q": 3, "auto": False, "mlf": None, "hash": "default", "tops": tops, "lows": lows, "pool": [],
                           "ops": [["add", a, b] for a, b in order] + [["remove", t, r], ["add", t, r]]}

    def big():
        # the two other storage type codes: quotient 16 ('I' cells, remainder 16 bits) and 24 ('B' cells, remainder 8 bits)
        ops = [["add", 0, 0], ["add", 0, 1], ["add", 1, 0], ["add", 0, 2], ["add", 7, 3], ["add", 7, 0], ["remove", 0, 1],
               ["add", 0, 3], ["remove", 0, 0], ["add", 0, 0], ["remove", 7, 3], ["raw_add", 0xFFFFFFFF], ["raw_add", 0xFFFFFF00],
               ["raw_remove", 0xFFFFFFFF]]
        for q in ((16, 24) if tier == "thorough" else (16,)):
            yield {"q": q, "auto": False, "mlf": None, "hash": "default", "tops": [0, 0, 0, 1, 2, 3, 4, 255], "lows": [1, 2, 3, 255, 256],
                   "pool": [], "ops": ops, "light": True}

    def full_big():
        # completely full tables beyond 256 slots (quotient 9, thorough also 10), one cluster wrapping the whole table with its head
        # at a chosen slot; then the head (or another element) is removed and re-added.  Slot numbers above 256 matter to code that
        # compares indices by identity or stores them in a byte.
        for q in ((9,) if tier == "quick" else (9, 10)):
            size = 1 << q
            r = 32 - q
            for head in (300 % size, size - 1, 257, 5):
                ops = [["raw_add", (head << r) | 1], ["raw_add", (head << r) | 2]]
                ops += [["raw_add", (j << r) | 1] for j in range(size) if j not in (head, (head - 1) % size)]
                for victim in ((head << r) | 1, (((head + 7) % size) << r) | 1):
                    yield {"q": q, "auto": False, "mlf": None, "hash": "default", "tops": [0, 1, 2, 3], "lows": [1, 2, 3], "pool": [],
                           # (first a NEW hash offered to the full table: refused, and promptly)
                           "ops": ops + [["raw_add", (((head + 3) % size) << r) | 3], ["raw_remove", victim], ["raw_add", victim]],
                           "verify_every": 128, "nocap": True}

    return [("q3_orders<=%d_of_16_x_removal+full_tables" % K, gen), ("storage_type_codes_q16_q24", big),
            ("full_single_cluster_tables_q9_q10", full_big)]


def run_case(case, ctx):
    d = drv.run_with_fallback(case, ctx, P)
    ctx.nt(bool(d.feats & {"removal_in_cluster>=3", "wrap_around", "resize_with>=4", "merge_with>=4"}))
    ctx.trace.insert(0, [case["q"], case["auto"], case["mlf"], case["hash"], case["tops"], case["lows"], case["pool"]])
