"""C01 - Bloom filters never report an added key as absent."""
from vlib.drivers import bloom as drv

ID = "C01"
LEVEL = "exploration"
ORACLES = {
    "C01.member": "after every operation every key added since the last clear() answers check(k) is True and `k in f`",
    "C01.bits": "the exported bit array only gains bits outside clear(); a union's bits are a superset of both operands'",
    "C01.no_exception": "no add / push / clear / export / load / reopen / union call raises",
}
RULE = ("Hypothesis draws kind in {BloomFilter, BloomFilterOnDisk, ExpandingBloomFilter}, a geometry (est 1..300 skewed small, "
        "fpr from awkward values / 10^-u (u<=44) / i/2000 / 2^-(j/2); expanding: est 1..12), one of 12 hash strategies (fnv-1a default, md5, "
        "sha256, both decorators, hand-written incl. degenerate ones whose positions coincide), a pool of 2-10 str/bytes keys "
        "(ASCII, Latin-1, BMP, astral, empty, all byte values) and 3-40 operations: add, forced add, push, clear, reload through a "
        "channel (bytes/frombytes, export path + filepath=, Path object, file object, export_hex + hex_string=, in-memory -> on-disk, "
        "on-disk export/reopen/-> in-memory), close+reopen, union with a second filter built from generated keys (in-memory or "
        "on-disk operand, either position). Ops that do not apply are re-mapped, never rejected. Non-trivial = >= 2 distinct keys "
        "added and a reload / reopen / union / growth happened after an add whose key is checked later. Distinct by resolved history.")
ASSUMPTIONS = ["on-disk filters use a relative file name with cwd = scratch directory (other locations are C11's subject)"]
MANIFEST = {
    "technique": "model-based property testing: generated operation histories (Hypothesis) against a key-list model, "
                 "bit-superset invariant",
    "level_text": "Exploration of histories over three filter kinds x generated geometries (number_bits residues, 1..~149 hashes) x "
                  "12 hash strategies x all load/save channels; the model is the list of keys added since the last clear and is "
                  "checked after every single operation.",
    "level_note": "Trusted: key-list model, Hypothesis generation. Rotating filters excluded (they forget by design, C10).",
}
P = {"member": "C01.member", "bits": "C01.bits"}


def budget(tier):
    return {"cases": 16 * 150 if tier == "quick" else 16 * 4000}


def strategy(tier):
    return drv.case_strategy(tier, big=300 if tier == "quick" else 3000)


def run_case(case, ctx):
    d = drv.BloomDriver(case, ctx, P)
    try:
        if not d.run():
            return
    finally:
        d.close()
    distinct = len(set(d.keys))
    ev = d.events & {"reload_after_add", "reopen_after_add", "union_after_add", "growth"}
    ctx.nt(distinct >= 2 and bool(ev))
    ctx.trace.insert(0, [case["kind"], case["est"], case["fpr"], case["hash"], case["pool"]])
