"""C17 - heavy-hitter and threshold tables are consistent with the returned estimates."""
import itertools

from vlib.drivers import cms as drv

ID = "C17"
LEVEL = "exploration"
ORACLES = {
    "C17.hh": "HeavyHitters after every step: len(table) == min(number_heavy_hitters, distinct keys seen); table[k] == value returned by "
              "k's most recent add; no untracked seen key's most recent estimate exceeds the smallest tracked one",
    "C17.st": "StreamThreshold after every step: meets_threshold == {k: last[k] for seen k if last[k] >= threshold} where last[k] is the "
              "value returned by k's most recent add or remove; hence a key whose true count reaches the threshold is listed",
    "C17.no_exception": "no add/remove/clear raises",
}
RULE = ("Hypothesis draws HeavyHitters (num_hitters 1..4, adds only) or StreamThreshold (threshold 1..8, add and legitimate remove; half of "
        "them switched to the mean or mean-min query, under which returned estimates can fall without any removal), "
        "width 1..4, depth 1..3 (colliding), a hash strategy, a pool of 2-9 keys (larger than the table) and 3-50 ops incl. occasional "
        "clear(). Exhaustive slice: width 1, depth 1, 3 keys, every history of length <= L (L=5 quick, 6 thorough) over {add k 1, add k "
        "2, remove k} for StreamThreshold(threshold 2 and 3) and over {add k 1, add k 2} for HeavyHitters(1 and 2 hitters); second slice: "
        "HeavyHitters (2 and 3 slots) over a collision-free 64x2 sketch, every history of <= L additions of 1, 2 or 3 over four keys up to "
        "renaming. HeavyHitters also runs with the mean / mean-min queries (count and entry clauses only). Non-trivial "
        "= HH: a tracked key was replaced; ST: an upward and a downward crossing, or an add returning below the threshold for a listed "
        "key. Distinct by resolved history.")
ASSUMPTIONS = ["removals are legitimate (never exceed the key's outstanding count)"]
MANIFEST = {
    "technique": "model-based property testing: generated add/remove/clear histories; oracle = table recomputed from the values the "
                 "calls returned; exhaustive width-1 histories",
    "level_text": "Exploration on tiny colliding sketches with more keys than table slots, tables compared after every step; all "
                  "width-1 histories up to length 5/6 enumerated.",
    "level_note": "Trusted: the 'most recent returned value' bookkeeping in vlib/drivers/cms.py.",
}
P = {"hh": "C17.hh", "st": "C17.st", "vary_query": True}


def budget(tier):
    return {"cases": 16 * 300 if tier == "quick" else 16 * 6000}


def strategy(tier):
    return drv.case_strategy(tier, classes=("hh", "st"), allow_clear=True, max_ops=50, small=True, extra_ops=True)


def exhaustive(tier):
    L = 5 if tier == "quick" else 6

    def gen():
        st_alpha = [["add", k, n] for k in range(3) for n in (1, 2)] + [["remove", k, 0] for k in range(3)]
        hh_alpha = [["add", k, n] for k in range(3) for n in (1, 2)]
        for n in range(1, L + 1):
            for combo in itertools.product(st_alpha, repeat=n):
                for t in (2, 3):
                    yield {"cls": "st", "w": 1, "d": 1, "hash": "default", "pool": ["s:a", "s:b", "b:00"], "hitters": 1,
                           "threshold": t, "ops": [list(o) for o in combo]}
            for combo in itertools.product(hh_alpha, repeat=n):
                for h in (1, 2):
                    yield {"cls": "hh", "w": 1, "d": 1, "hash": "default", "pool": ["s:a", "s:b", "b:00"], "hitters": h,
                           "threshold": 1, "ops": [list(o) for o in combo]}

    LW = 5 if tier == "quick" else 6

    def gen_wide():
        # HeavyHitters over a sketch wide enough that the four keys do not collide (estimates = true counts): which key is evicted,
        # which one is refused and what the eviction floor is depend on the ORDER of equal and unequal counts only - every
        # history of up to LW additions of 1, 2 or 3 over four keys (up to renaming), with two or three slots
        alpha = [["add", k, n] for k in range(4) for n in (1, 2, 3)]
        for n in range(3, LW + 1):
            for combo in itertools.product(alpha, repeat=n):
                if len({c[1] for c in combo}) < 3:
                    continue  # fewer than three distinct keys: no eviction can happen with two slots
                seen = -1
                for c in combo:  # keys in order of first use (the histories are symmetric under renaming the keys)
                    if c[1] > seen + 1:
                        seen = None
                        break
                    seen = max(seen, c[1])
                if seen is None:
                    continue
                for h in (2, 3):
                    if h == 3 and seen < 3:
                        continue  # three slots: only histories that use all four keys
                    yield {"cls": "hh", "w": 64, "d": 2, "hash": "default", "pool": ["s:a", "s:b", "b:00", "s:dd"], "hitters": h,
                           "threshold": 1, "ops": [list(o) for o in combo]}

    return [("width1_histories_len<=%d" % L, gen), ("heavy_hitters_collision_free_histories_len<=%d" % LW, gen_wide)]


def run_case(case, ctx):
    d = drv.CmsDriver(case, ctx, P)
    d.run()
    f = d.feats
    ctx.nt("hh_replacement" in f or ("st_up_crossing" in f and "st_down_crossing" in f) or "st_add_below_threshold_for_listed_key" in f)
    ctx.trace.insert(0, [case["cls"], case.get("w"), case.get("d"), case["hitters"], case["threshold"], case["hash"], case["pool"]])
