"""C05 - export followed by load reproduces the structure on every channel."""
import copy
import io
import os
import struct
from pathlib import Path

from hypothesis import strategies as st

from vlib import gen
from vlib.drivers import bloom, cbloom, cms, cuckoo, expanding
from vlib.gen import dk

ID = "C05"
LEVEL = "exploration"
ORACLES = {
    "C05.channels": "all channels of one object carry the same payload: export(str path) == export(Path) == export(file object) == "
                    "export(BytesIO) == bytes(); export_hex() decodes to the same cell bytes and the same (est, added, fpr) triple "
                    "(big-endian footer)",
    "C05.reexport": "for every loader (filepath=, frombytes on the object's own class, hex_string=, BloomFilterOnDisk(path), "
                    "load_error_rate) with only the non-stored parameters re-supplied, the loaded object re-exports byte-identically",
    "C05.observe": "the loaded object has the same geometry, elements_added (unique_elements, expansions, current_queue_size), class / "
                   "query_type, and answers every query (check, `in`, all three count-min query types, estimate_elements, "
                   "current_false_positive_rate, load_factor) identically for members and non-members",
    "C05.suffix": "a generated suffix of further operations applied to the original and to the copy keeps them byte-identical",
    "C05.export_load": "no export / load call raises",
    "C05.no_exception": "(soft) an exception while BUILDING the state abandons the case; it is counted, not reported - the operation belongs to another property",
}
RULE = ("State = configuration + history produced by the drivers of C01 (Bloom / on-disk / expanding incl. unions, clears, reloads), "
        "C09/C10 (expanding / rotating after growth and rotation), C08 (counting Bloom after removals), C02/C17 (CountMinSketch, "
        "CountMeanSketch, CountMeanMinSketch, HeavyHitters, StreamThreshold after removals) and C03 (CuckooFilter / "
        "CountingCuckooFilter after evictions/expansions, byte-width and init_error_rate constructors, narrow hashes). Then every export "
        "channel and every loader of that class is exercised, followed by a generated suffix of 0-4 further operations on original and "
        "copy. Non-trivial = the state has a corner feature: number_bits % 8 != 0, > 1 sub-filter, a removal (also beyond the outstanding count: negative counters) / eviction / expansion / "
        "rotation happened, fingerprint width not a whole number of bytes, on-disk origin. Distinct by (structure, resolved history).")
ASSUMPTIONS = ["frombytes is also exercised with bytearray and memoryview (ByteString) for every class except the plain CuckooFilter, whose loader "
               "accepts only the bytes type on the unchanged tree",
               "the expanding/rotating false_positive_rate is compared after narrowing to the 32-bit float the format stores",
               "what the format does not store is re-supplied: hash function, cuckoo fingerprint width / expansion rate / auto_expand, rotating "
               "queue limit, heavy-hitter count / threshold (their tables are not compared)",
               "set-operation results whose cells are all set (elements_added = -1 sentinel) are excluded: open finding KF_SATURATED_SETOP"]
MANIFEST = {
    "technique": "round-trip property testing over all exportable classes x channels x loaders on generated reachable states, plus a "
                 "differential suffix (original vs. reloaded copy under the same further operations)",
    "level_text": "Exploration: every class, channel and loader is exercised on states reached by generated histories that are biased to "
                  "corner states; equality is byte-level for re-exports and value-level for every query on members and non-members.",
    "level_note": "Trusted: the comparison code in checks/c05_roundtrip.py; drivers in vlib/drivers/ only build states here.",
}

FOOT = struct.Struct("QQf")
FOOT_BE = struct.Struct(">QQf")


def budget(tier):
    return {"cases": 16 * 200 if tier == "quick" else 16 * 4000}


def strategy(tier):
    def tag(t):
        return lambda c: dict(c, s=t)

    extra = st.fixed_dictionaries({"probes": gen.pool_st(1, 4), "suffix": st.lists(st.tuples(st.integers(0, 15), st.integers(1, 4), st.booleans()),
                                                                                  max_size=4).map(lambda l: [list(x) for x in l]),
                                   "qt": st.sampled_from(["min", "mean", "mean-min"]), "er": st.sampled_from([None, None, None, 0.01, 0.0001, 0.3, 0.00001, 0.00001, 1e-10, 3e-11])})
    base = st.one_of(
        bloom.case_strategy(tier, max_ops=25).map(tag("bloom")),
        bloom.case_strategy(tier, max_ops=25).map(tag("bloom")),
        expanding.case_strategy(tier, rot=False, max_ops=30).map(tag("exp")),
        expanding.case_strategy(tier, rot=True, max_ops=30).map(tag("exp")),
        cbloom.case_strategy(tier, max_ops=25).map(tag("cbloom")),
        cms.case_strategy(tier, classes=("cms", "cms", "hh", "st"), max_ops=25, over_remove=True).map(tag("cms")),
        cms.case_strategy(tier, classes=("cms",), max_ops=25, over_remove=True).map(tag("cms")),
        cuckoo.case_strategy(tier, max_ops=30).map(tag("cuckoo")),
        cuckoo.case_strategy(tier, max_ops=30).map(tag("cuckoo")),
    )
    return st.tuples(base, extra).map(lambda t: dict(t[0], **t[1]))


# ---------------------------------------------------------------------------------------------------

class Ad:
    """adapter: how to export / load / observe / continue one structure"""

    def __init__(self, ctx, obj):
        self.ctx, self.obj = ctx, obj
        ctx.soft_noexc = False  # from here on every call is the subject of C05
        self.dir = ctx.tmpdir()
        self.n = 0
        self.nx = "C05.export_load"

    def path(self):
        self.n += 1
        return os.path.join(self.dir, "x%d.bin" % self.n)

    def channels(self, obj, hex_ok=False, file_ok=True):
        ctx = self.ctx
        out = {"bytes": ctx.call(self.nx, bytes, obj)}
        if file_ok:
            # the target of an export may EXIST already (a save file written again, possibly by a larger structure before): what is
            # there must be replaced, not partly overwritten
            p = self.path()
            with open(p, "wb") as fh:
                fh.write(b"\xa5" * (len(out["bytes"]) + 41))
            ctx.call(self.nx, obj.export, p)
            out["path"] = open(p, "rb").read()
            p = self.path()
            with open(p, "wb") as fh:
                fh.write(b"\x5a" * max(1, len(out["bytes"]) // 2))
            ctx.call(self.nx, obj.export, Path(p))
            out["Path"] = open(p, "rb").read()
            p = self.path()
            with open(p, "wb") as fh:
                ctx.call(self.nx, obj.export, fh)
            out["fileobj"] = open(p, "rb").read()
            b = io.BytesIO()
            ctx.call(self.nx, obj.export, b)
            out["BytesIO"] = b.getvalue()
        ref = out["bytes"]
        for k, v in out.items():
            ctx.check("C05.channels", v == ref, lambda: f"channel {k} carries {len(v)} bytes differing from bytes() ({len(ref)} bytes)")
        return ref

    def write(self, raw):
        p = self.path()
        with open(p, "wb") as f:
            f.write(raw)
        return p


def _bloom_like(case, ctx, d, counting):
    """BloomFilter / BloomFilterOnDisk / CountingBloomFilter"""
    from probables import BloomFilter, BloomFilterOnDisk, CountingBloomFilter

    o = d.obj
    hf = d.hf
    kind = "counting" if counting else d.kind
    if o.elements_added < 0 and (ctx.guard("KF_SATURATED_SETOP") or ctx.guard("KF_SETOP_PRODUCT_NEGATIVE_COUNT")) and not case.get("force_export"):
        # open finding: a union/intersection whose cells are all set carries the -1 sentinel of estimate_elements() as its
        # element count, which export cannot pack.  Excluded by construction while the finding is open (counted).
        ctx.exclude("KF_SATURATED_SETOP")
        ctx.feat("excluded_saturated_setop")
        return None
    ad = Ad(ctx, o)
    K = CountingBloomFilter if counting else BloomFilter
    ondisk = kind == "ondisk"
    if ondisk:
        p = ad.path()
        ctx.call(ad.nx, o.export, p)  # the copy is made BEFORE bytes() is asked for, so each channel has to be current by itself
        copied = open(p, "rb").read()
        raw = ctx.call(ad.nx, bytes, o)
        ctx.check("C05.channels", copied == raw, lambda: f"on-disk export(path) differs from bytes(): footer {FOOT.unpack(copied[-20:])} vs {FOOT.unpack(raw[-20:])}")
    else:
        raw = ad.channels(o)
    cells = raw[:-20]
    hx = ctx.call(ad.nx, o.export_hex)
    hb = bytes.fromhex(hx)
    ctx.check("C05.channels", hb[:-20] == cells, "export_hex cell bytes differ from the binary export")
    ctx.check("C05.channels", FOOT_BE.unpack(hb[-20:]) == FOOT.unpack(raw[-20:]), lambda: f"hex footer {FOOT_BE.unpack(hb[-20:])} != binary footer {FOOT.unpack(raw[-20:])}")
    probes = d.pool + [dk(k) for k in case["probes"]]

    def observe(x):
        return (x.estimated_elements, x.false_positive_rate, x.number_bits, x.number_hashes, x.bloom_length, x.elements_added,
                x.export_size(), [x.check(k) for k in probes], [k in x for k in probes], x.estimate_elements(),
                x.current_false_positive_rate())

    want = observe(o)
    loaders = [("frombytes", lambda: K.frombytes(raw, hf)), ("filepath", lambda: K(filepath=ad.write(raw), hash_function=hf)),
               ("filepath_Path", lambda: K(filepath=Path(ad.write(raw)), hash_function=hf)),
               ("hex_string", lambda: K(hex_string=hx, hash_function=hf)),
               ("frombytes_bytearray", lambda: K.frombytes(bytearray(raw), hf)),
               ("frombytes_memoryview", lambda: K.frombytes(memoryview(raw), hf)),
               # load-or-create idiom: sizing arguments given together with an existing file (documented order: the file wins)
               ("filepath_with_params", lambda: K(o.estimated_elements + 7, 0.2, filepath=ad.write(raw), hash_function=hf))]
    if not counting:
        loaders.append(("BloomFilterOnDisk", lambda: BloomFilterOnDisk(ad.write(raw), hash_function=hf)))
    if not getattr(o, "is_on_disk", False):
        # not a save/load channel of the format, but the same promise in Python's own terms: a deep copy is the structure again
        loaders.append(("deepcopy", lambda: copy.deepcopy(o)))
    copies = []
    for name, mk in loaders:
        g = ctx.call(ad.nx, mk)
        g_on_disk = name == "BloomFilterOnDisk"
        ctx.check("C05.reexport", bytes(g) == raw, lambda: f"{kind} -> {name}: re-export differs (footer {FOOT.unpack(bytes(g)[-20:])} vs {FOOT.unpack(raw[-20:])})")
        ctx.check("C05.reexport", g.export_hex() == hx, f"{kind} -> {name}: export_hex differs")
        got = observe(g)
        ctx.check("C05.observe", got == want, lambda: f"{kind} -> {name}: observations differ: {got} != {want}")
        if not g_on_disk and not ondisk:
            ctx.check("C05.observe", type(g) is type(o), f"{name} built a {type(g).__name__} from a {type(o).__name__}")
        copies.append((name, g))
        ctx.feat("loader_%s_%s" % (kind, name))
    # suffix
    outstanding = dict(getattr(d, "true", {}))
    for ki, n, rem in case["suffix"]:
        k = probes[ki % len(probes)]
        legit = counting and rem and outstanding.get(k, 0) >= n  # removals stay legitimate (never exceed what was added)
        if legit and getattr(d, "product", False) and o.elements_added - n < 0 and not case.get("force_remove"):
            ctx.exclude("KF_SETOP_PRODUCT_NEGATIVE_COUNT")  # open finding: the count of a union product would go negative
            legit = False
        for name, x in [("orig", o)] + copies:
            if counting:
                if legit:
                    x.remove(k, n)
                else:
                    x.add(k, n)
            else:
                x.add(k)
        if counting:
            outstanding[k] = outstanding.get(k, 0) + (-n if legit else n)
        r0 = bytes(o)
        for name, x in copies:
            ctx.check("C05.suffix", bytes(x) == r0, f"{kind} -> {name}: diverged from the original after the same further operations")
    for name, x in copies:
        if name == "BloomFilterOnDisk":
            x.close()
    return kind


def _expanding(case, ctx, d):
    from probables import ExpandingBloomFilter, RotatingBloomFilter

    o, hf, rot = d.obj, d.hf, d.rot
    ad = Ad(ctx, o)
    raw = ad.channels(o)
    K = RotatingBloomFilter if rot else ExpandingBloomFilter
    probes = [d.key(i) for i in range(max(1, d.used))] + [dk(k) for k in case["probes"]]

    def observe(x):
        # the format stores the rate as a 32-bit float; a freshly constructed expanding filter reports the caller's double
        t = (x.expansions, x.elements_added, x.estimated_elements, struct.unpack("f", struct.pack("f", x.false_positive_rate))[0],
             [x.check(k) for k in probes], [k in x for k in probes])
        if rot:
            t += (x.current_queue_size, x.max_queue_size)
        return t

    want = observe(o)
    if rot:
        loaders = [("frombytes", lambda: K.frombytes(raw, d.q, hf)), ("filepath", lambda: K(filepath=ad.write(raw), max_queue_size=d.q, hash_function=hf)),
                   ("frombytes_bytearray", lambda: K.frombytes(bytearray(raw), d.q, hf)),
                   ("frombytes_memoryview", lambda: K.frombytes(memoryview(raw), d.q, hf))]
    else:
        loaders = [("frombytes", lambda: K.frombytes(raw, hf)), ("filepath", lambda: K(filepath=ad.write(raw), hash_function=hf)),
                   ("filepath_Path", lambda: K(filepath=Path(ad.write(raw)), hash_function=hf)),
                   ("frombytes_bytearray", lambda: K.frombytes(bytearray(raw), hf)),
                   ("frombytes_memoryview", lambda: K.frombytes(memoryview(raw), hf)),
                   ("filepath_with_params", lambda: K(est_elements=o.estimated_elements + 5, false_positive_rate=0.2, filepath=ad.write(raw), hash_function=hf))]
    loaders.append(("deepcopy", lambda: copy.deepcopy(o)))
    copies = []
    for name, mk in loaders:
        g = ctx.call(ad.nx, mk)
        ctx.check("C05.reexport", bytes(g) == raw, f"{'rotating' if rot else 'expanding'} -> {name}: re-export differs")
        got = observe(g)
        ctx.check("C05.observe", got == want, lambda: f"{'rotating' if rot else 'expanding'} -> {name}: observations differ: {got} != {want}")
        ctx.check("C05.observe", type(g) is type(o), f"{name} built a {type(g).__name__}")
        copies.append((name, g))
        ctx.feat("loader_%s_%s" % ("rot" if rot else "exp", name))
    for ki, n, force in case["suffix"]:
        k = probes[ki % len(probes)] if ki % 3 else ("fresh%d" % ki)
        for name, x in [("orig", o)] + copies:
            x.add(k, force)
        for name, x in copies:
            ctx.check("C05.suffix", bytes(x) == bytes(o), f"{name}: diverged from the original after the same further operations")
    return "rot" if rot else "exp"


def _cms(case, ctx, d):
    from probables import CountMeanMinSketch, CountMeanSketch, CountMinSketch, HeavyHitters, StreamThreshold

    hf = d.hf
    o = d.obj
    cls = d.cls
    extra = {}
    if cls == "cms":
        # the two query-type subclasses share the driver's history: rebuild the same cells in the requested class
        qt = case["qt"] if d.w >= 2 else ("min" if case["qt"] == "mean-min" else case["qt"])
        K = {"min": CountMinSketch, "mean": CountMeanSketch, "mean-min": CountMeanMinSketch}[qt]
        if K is not CountMinSketch:
            o = K(width=d.w, depth=d.d, hash_function=hf)
            o.join(d.obj)
    else:
        K = HeavyHitters if cls == "hh" else StreamThreshold
        extra = {"num_hitters": case["hitters"]} if cls == "hh" else {"threshold": case["threshold"]}
    ad = Ad(ctx, o)
    raw = ad.channels(o)
    probes = d.pool + [dk(k) for k in case["probes"]]

    def observe(x):
        orig = x.query_type
        res = [x.width, x.depth, x.elements_added, orig]
        for q in ("min", "mean") + (("mean-min",) if x.width >= 2 else ()):
            x.query_type = q
            res.append([x.check(k) for k in probes])
        x.query_type = orig
        res.append([x.check(k) for k in probes])
        res.append([k in x for k in probes])
        return res

    want = observe(o)
    loaders = [("frombytes", lambda: K.frombytes(raw, hash_function=hf, **extra)),
               ("filepath", lambda: K(filepath=ad.write(raw), hash_function=hf, **extra)),
               ("filepath_Path", lambda: K(filepath=Path(ad.write(raw)), hash_function=hf, **extra)),
               ("frombytes_bytearray", lambda: K.frombytes(bytearray(raw), hash_function=hf, **extra)),
               ("frombytes_memoryview", lambda: K.frombytes(memoryview(raw), hash_function=hf, **extra)),
               ("filepath_with_params", lambda: K(width=d.w + 2, depth=d.d + 1, filepath=ad.write(raw), hash_function=hf, **extra))]
    loaders.append(("deepcopy", lambda: copy.deepcopy(o)))
    copies = []
    for name, mk in loaders:
        g = ctx.call(ad.nx, mk)
        ctx.check("C05.reexport", bytes(g) == raw, f"{K.__name__} -> {name}: re-export differs")
        ctx.check("C05.observe", type(g) is type(o), f"{K.__name__}.{name} built a {type(g).__name__}")
        got = observe(g)
        ctx.check("C05.observe", got == want, lambda: f"{K.__name__} -> {name}: observations differ: {got} != {want}")
        # confidence / error_rate are derived from (width, depth) on load; they must still honour what the original reports
        ctx.check("C05.observe", g.confidence >= o.confidence * (1 - 1e-12) and g.error_rate <= o.error_rate * (1 + 1e-12),
                  lambda: f"{K.__name__} -> {name}: confidence/error_rate {g.confidence}/{g.error_rate} weaker than {o.confidence}/{o.error_rate}")
        copies.append((name, g))
        ctx.feat("loader_%s_%s" % (K.__name__, name))
    outstanding = dict(d.true)
    for ki, n, rem in case["suffix"]:
        k = probes[ki % len(probes)]
        rets = []
        legit = rem and cls != "hh" and outstanding.get(k, 0) >= n
        for name, x in [("orig", o)] + copies:
            if legit:
                rets.append(x.remove(k, n))
            else:
                rets.append(x.add(k, n))
        outstanding[k] = outstanding.get(k, 0) + (-n if legit else n)
        ctx.check("C05.suffix", len(set(rets)) == 1, lambda: f"{K.__name__}: further add/remove returned {rets} on original and copies")
        for name, x in copies:
            ctx.check("C05.suffix", bytes(x) == bytes(o), f"{K.__name__} -> {name}: diverged from the original after the same further operations")
    return K.__name__


def _cuckoo(case, ctx, d):
    from probables import CountingCuckooFilter, CuckooFilter

    counting = d.counting
    K = CountingCuckooFilter if counting else CuckooFilter
    hf = d.hf
    o = d.obj
    er = case["er"]
    bits = None
    if er is not None:
        # error-rate constructor style: rebuild the same table in a filter created by init_error_rate when every stored
        # fingerprint fits the derived width
        o2 = K.init_error_rate(er, capacity=o.capacity, bucket_size=o.bucket_size, max_swaps=o.max_swaps, expansion_rate=o.expansion_rate,
                               auto_expand=o.auto_expand, hash_function=hf)
        bits = o2.fingerprint_size_bits
        with cuckoo.Installed(cuckoo.ScriptedRandom(case.get("tape", []))):
            ok = True
            try:
                for k in d.pool[: max(1, len(d.pool) // 2)]:
                    o2.add(k)
            except d.Full:
                ok = False
        if ok:
            o = o2
            ctx.feat("cuckoo_error_rate_style")
        else:
            er, bits = None, None
    if bits is not None and bits > 32:
        # fingerprints wider than the 4 bytes the format has per entry: the export refuses such a table (OverflowError) as soon as
        # one stored fingerprint does not fit - "cannot be exported", outside the claim; if it DOES export, the round trip must hold
        try:
            bytes(o)
            ctx.feat("cuckoo_wide_fingerprints_exported")
        except OverflowError:
            ctx.feat("cuckoo_wide_fingerprints_export_refused")
            return K.__name__
    ad = Ad(ctx, o)
    raw = ad.channels(o)
    probes = d.pool + [dk(k) for k in case["probes"]]

    def resupply(g):
        if er is None:
            g.fingerprint_size = case["fs"]
        g.expansion_rate = o.expansion_rate
        g.auto_expand = o.auto_expand
        return g

    def observe(x):
        t = (x.capacity, x.bucket_size, x.max_swaps, x.elements_added, x.fingerprint_size_bits, cuckoo.snapshot(x, counting),
             [x.check(k) for k in probes], [k in x for k in probes], x.load_factor())
        if counting:
            t += (x.unique_elements,)
        return t

    want = observe(o)
    if er is None:
        own = o.error_rate  # the width can also be re-supplied as the rate the filter itself reports

        def resupply_rest(g):
            g.expansion_rate = o.expansion_rate
            g.auto_expand = o.auto_expand
            return g

        loaders = [("frombytes_own_error_rate", lambda: resupply_rest(K.frombytes(raw, own, hf))),
                   ("load_own_error_rate", lambda: resupply_rest(K.load_error_rate(own, ad.write(raw), hf))),
                   ("frombytes", lambda: resupply(K.frombytes(raw, None, hf))),
                   ("filepath", lambda: resupply(K(filepath=ad.write(raw), hash_function=hf))),
                   ("filepath_Path", lambda: resupply(K(filepath=Path(ad.write(raw)), hash_function=hf)))]
    else:
        loaders = [("frombytes_er", lambda: resupply(K.frombytes(raw, er, hf))),
                   ("load_error_rate", lambda: resupply(K.load_error_rate(er, ad.write(raw), hf)))]
    if counting:  # the plain CuckooFilter loader accepts the `bytes` type only (observed on the unchanged tree); not generated for it
        loaders.append(("frombytes_bytearray", lambda: resupply(K.frombytes(bytearray(raw), er, hf))))
        loaders.append(("frombytes_memoryview", lambda: resupply(K.frombytes(memoryview(raw), er, hf))))
    loaders.append(("deepcopy", lambda: copy.deepcopy(o)))
    copies = []
    for name, mk in loaders:
        g = ctx.call(ad.nx, mk)
        ctx.check("C05.reexport", bytes(g) == raw, f"{K.__name__} -> {name}: re-export differs")
        ctx.check("C05.observe", type(g) is type(o), f"{name} built a {type(g).__name__}")
        got = observe(g)
        ctx.check("C05.observe", got == want, lambda: f"{K.__name__} -> {name}: observations differ: {got} != {want}")
        copies.append((name, g))
        ctx.feat("loader_%s_%s" % (K.__name__, name))
    wide = bits is not None and bits > 32
    if wide:
        # beyond 32 bits the format has no room: a LOADED table (4-byte slots) cannot take a further fingerprint that does not fit,
        # the original (Python lists) can - further operations are outside what the round trip promises there
        ctx.feat("cuckoo_wide_fingerprints_no_further_operations")
    for ki, n, rem in ([] if wide else case["suffix"]):
        k = probes[ki % len(probes)]
        outs = []
        for name, x in [("orig", o)] + copies:
            with cuckoo.Installed(cuckoo.ScriptedRandom(case.get("tape", []))):
                try:
                    outs.append(("ok", x.remove(k) if rem else x.add(k)))
                except d.Full:
                    outs.append(("full", None))
                except OverflowError:  # a bin already at the 32-bit limit refuses the increment: original and copies alike
                    outs.append(("overflow", None))
        ctx.check("C05.suffix", all(x == outs[0] for x in outs), lambda: f"{K.__name__}: further operation gave {outs} on original and copies")
        for name, x in copies:
            ctx.check("C05.suffix", bytes(x) == bytes(o), f"{K.__name__} -> {name}: diverged from the original after the same further operations")
    if o.fingerprint_size_bits % 8:
        ctx.feat("cuckoo_bits_not_byte_aligned")
    return K.__name__


def run_case(case, ctx):
    ctx.soft_noexc = True  # state building; switched off by the adapters before the export/load calls under test
    _run_case(case, ctx)


def _run_case(case, ctx):
    s = case["s"]
    corner = set()
    if s == "bloom":
        d = bloom.BloomDriver(case, ctx, {})
        try:
            if not d.run():
                return
            if d.kind == "expanding":
                # reuse the expanding adapter through a thin shim
                class Shim:
                    pass
                sh = Shim()
                sh.obj, sh.hf, sh.rot, sh.q, sh.used = d.obj, d.hf, False, 0, 0
                sh.key = lambda i: d.pool[i % len(d.pool)]
                sh.used = len(d.pool)
                _expanding(case, ctx, sh)
                if d.obj.expansions:
                    corner.add("sub_filters>1")
            else:
                k = _bloom_like(case, ctx, d, False)
                if k is None:
                    return
                if d.obj.number_bits % 8:
                    corner.add("m%8!=0")
                if k == "ondisk":
                    corner.add("ondisk_origin")
                if d.events & {"union_after_add", "clear"}:
                    corner.add("after_union_or_clear")
        finally:
            d.close()
    elif s == "exp":
        d = expanding.ExpandingDriver(case, ctx, {})
        d.run()
        _expanding(case, ctx, d)
        if d.obj.expansions:
            corner.add("sub_filters>1")
        if "rotation_dropped_filter" in d.feats:
            corner.add("after_rotation")
    elif s == "cbloom":
        d = cbloom.CBloomDriver(case, ctx, {})
        if not d.run():
            return
        d.kind = "counting"
        _bloom_like(case, ctx, d, True)
        if "remove" in d.feats:
            corner.add("after_removal")
        if d.obj.number_bits % 8:
            corner.add("m%8!=0")
    elif s == "cms":
        d = cms.CmsDriver(case, ctx, {"allow_over_remove": True})
        d.run()
        name = _cms(case, ctx, d)
        if "over_remove" in d.feats:
            corner.add("negative_counters")
        if "remove" in d.feats:
            corner.add("after_removal")
        if name != "CountMinSketch":
            corner.add("subclass_" + name)
    else:
        d = cuckoo.CuckooDriver(case, ctx, {})
        d.run()
        _cuckoo(case, ctx, d)
        corner |= d.feats & {"eviction_chain", "auto_expansion", "manual_expansion", "remove_present"}
        if ctx.features.get("cuckoo_bits_not_byte_aligned"):
            corner.add("bits_not_byte_aligned")
    for c in corner:
        ctx.feat("corner_" + c)
    ctx.feat("structure_" + s)
    ctx.nt(bool(corner))
    ctx.trace.insert(0, [s, case["probes"], case["suffix"], case["qt"], case["er"]])
