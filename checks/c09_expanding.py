"""C09 - Expanding Bloom filter grows exactly when its newest filter is full."""
import itertools

from vlib.drivers import expanding as drv

ID = "C09"
LEVEL = "exploration"
ORACLES = {
    "C09.growth": "after every step the per-filter insertion counts parsed from the exported stream equal the model "
                  "(effective add: if newest == est then append a filter; newest += 1; push: append), none exceeds est, "
                  "expansions == filters-1, without pushes expansions == max(0, ceil(I/est)-1), elements_added == add calls "
                  "(also across reloads)",
    "C09.no_exception": "no add/push/export/load raises",
}
RULE = ("Hypothesis draws est (1..5 mostly, up to 50), fpr from a short list, a hash strategy and 5-80 ops from {add new key, add "
        "duplicate, forced add, push (in 1/4 of the cases), reload via frombytes / export path / file object}. The driver asks "
        "check(key) just before each add, so 'effective' is what the structure itself reported. Exhaustive slice: est 1..3, every op "
        "string of length <= L over {new, dup, forced, push, reload, stand-alone probe of a fresh key, dup / forced add issued WITHOUT a look-up right before it} (L=5 quick, 6 thorough). Non-trivial = crosses >= 1 growth "
        "boundary and contains a duplicate or forced add; distinct by resolved history. Random histories also contain bulk additions of up "
        "to est+6 new keys (est up to 300 quick / 2500 thorough, rates incl. 0.35 / 0.4) so large filters reach their boundary.")
ASSUMPTIONS = ["per-filter counts are read from the export stream (u64 count | bits per filter, QQQf footer) by the harness' own parser"]
MANIFEST = {
    "technique": "model-based property testing over add/push/reload histories + exhaustive short op strings; model of per-filter "
                 "insertion counts compared with the exported stream",
    "level_text": "Exploration: all op strings up to length 6/8 for est 1..3 exhaustively, longer histories and other geometries "
                  "sampled; the oracle is an independent count model evaluated after every step.",
    "level_note": "Trusted: the growth model restated from the property, the harness' stream parser.",
}
P = {"growth": "C09.growth"}


def budget(tier):
    return {"cases": 16 * 300 if tier == "quick" else 16 * 6000}


def strategy(tier):
    return drv.case_strategy(tier, rot=False)


def exhaustive(tier):
    L = 5 if tier == "quick" else 6
    alphabet = [["new"], ["dup", 0], ["forced", 0], ["push"], ["reload", 0], ["probe", 0], ["dup", 0, True], ["forced", 1, True]]

    def gen():
        for est in (1, 2, 3):
            for n in range(1, L + 1):
                for combo in itertools.product(range(8), repeat=n):
                    yield {"rot": False, "est": est, "fpr": 0.01, "q": 1, "hash": "default",
                           "ops": [alphabet[c] for c in combo]}

    return [("all_op_strings_len<=%d_est1-3" % L, gen)]


def run_case(case, ctx):
    d = drv.run_twins(case, ctx, P)
    ctx.nt("growth" in d.feats and ("dup" in d.feats or "forced" in d.feats))
    ctx.trace.insert(0, ["est", case["est"], "fpr", case["fpr"], case["hash"]])
