"""C06 - exported bytes follow the documented C-compatible layout exactly (differential against cref/ref.c)."""
import io
import os
import re
import struct

from hypothesis import strategies as st

from vlib import cref, gen
from vlib.gen import dk, kbytes

ID = "C06"
LEVEL = "exploration"
ORACLES = {
    "C06.writer": "the library's export is byte-for-byte the file the independent C reference writer produces from the same additions / "
                  "removals (Bloom, on-disk Bloom, counting Bloom, count-min, expanding and rotating stream; cuckoo formats from the public "
                  "bucket table, and from the harness' own placement model on eviction-free histories)",
    "C06.reader": "the independent C reference reader, given only the exported bytes and a key, computes the same answer as the library for "
                  "members and non-members (Bloom check, counting-Bloom count, count-min min / mean / mean-min, cuckoo presence / count)",
    "C06.hex": "export_hex() == hex(cell bytes) + hex(big-endian footer)",
    "C06.c_header": "export_c_header text parses to the same estimated_elements, elements_added, number_bits, number_hashes and to a byte array "
                    "equal to fromhex(export_hex())",
    "C06.footer": "the reference reader re-derives (m, k) from the footer like the C library and the file length matches ceil(m/8)+20 / 4m+20 / "
                  "4wd+16",
    "C06.export": "no export raises",
    "C06.sizing_sweep": "for every est_elements of long consecutive ranges (millions of values per rate) the library derives exactly the (number_bits, "
                        "number_hashes) the C reference derives from the footer values - the reader has nothing else to find the cells with",
    "C06.no_exception": "(soft) an exception while replaying the history abandons the case; counted, not reported",
}
RULE = ("'Programs': every generated operation history is a program for the reference WRITER, every exported file a program for the reference "
        "READER. Default hash only (FNV-1a seeded per index is the documented rule); keys are bytes or ASCII text. Hypothesis draws a structure "
        "(Bloom / on-disk Bloom / counting Bloom / count-min with all three query types / expanding / rotating / cuckoo / counting cuckoo), a "
        "geometry (est 1..300, fpr incl. awkward values and 10^-u, widths 1..64, depths 1..8, tiny cuckoo tables with 1/2/4-byte or error-rate "
        "fingerprints), a pool of 2-10 keys, a history of 3-40 additions / legitimate removals, and 1-4 extra probe keys. Non-trivial = >= 3 "
        "additions, >= 1 member probe and >= 1 non-member probe. Distinct by (structure, geometry, resolved history, probes). Deterministic "
        "slice 'sizing_sweep': the library's sizing routine against the C reference's (m, k) for every est_elements of consecutive ranges "
        "(quick: 6 million values at two rates, thorough: 64 million at five) in chunks of 250000.")
ASSUMPTIONS = ["the reference is mine (cref/ref.c, written from the format description), not the upstream C library (not available offline); its FNV "
               "is pinned to the published vectors", "native little-endian host, 4-byte float", "mean and mean-min use floor division (the library's "
               "observable rule); cases with negative intermediates are counted", "mean-min with width 1 is outside the domain",
               "a cuckoo fingerprint value of 0 is never stored (mapped to 1)"]
MANIFEST = {
    "technique": "differential property testing against an independent C reference reader and writer (ctypes) over generated operation "
                 "histories; byte-for-byte file equality and answer equality",
    "level_text": "Exploration; each generated history is executed by the library and by a C writer written from the format description, the "
                  "files are compared byte for byte, and a C reader answers membership / count queries from the file alone.",
    "level_note": "Trusted: cref/ref.c (gcc -fsanitize=undefined), ctypes marshalling in vlib/cref.py, the placement model for eviction-free "
                  "cuckoo histories.",
}
NX = "C06.export"


def prepare():
    cref.build()


def budget(tier):
    return {"cases": 16 * 300 if tier == "quick" else 16 * 6000}


def strategy(tier):
    ki = st.integers(0, 9)
    amt = st.one_of(st.integers(1, 4), st.integers(1, 500))
    hist_add = st.lists(ki, min_size=3, max_size=40)
    hist_amt = st.lists(st.tuples(ki, st.one_of(amt, amt, st.integers(-8, -1))), min_size=3, max_size=40).map(lambda l: [list(x) for x in l])
    common = {"pool": gen.pool_st(2, 10, kind="ascii"), "probes": gen.pool_st(1, 4, kind="ascii")}
    geom = st.tuples(gen.est_st(300), gen.fpr_st(30.0))
    bloom = st.fixed_dictionaries(dict(common, t=st.sampled_from(["bloom", "bloom", "ondisk"]), geom=geom, h=hist_add))
    cb = st.fixed_dictionaries(dict(common, t=st.just("cbloom"), geom=st.tuples(gen.est_st(60), gen.fpr_st(9.0)), h=hist_amt))
    cm = st.fixed_dictionaries(dict(common, t=st.just("cms"), w=st.one_of(st.integers(1, 4), st.integers(2, 64)), d=st.integers(1, 8), h=hist_amt))
    ex = st.fixed_dictionaries(dict(common, t=st.sampled_from(["exp", "rot"]), est=st.integers(1, 6), fpr=st.sampled_from([0.05, 0.01, 0.2, 0.001, 0.5]),
                                    q=st.integers(1, 4), h=st.lists(st.tuples(ki, st.integers(0, 9)), min_size=3, max_size=40).map(lambda l: [list(x) for x in l])))
    ck = st.fixed_dictionaries(dict(common, t=st.sampled_from(["cuckoo", "ccuckoo"]), cap=st.integers(1, 12), bs=st.integers(1, 4),
                                    fs=st.sampled_from([1, 2, 4]), er=st.sampled_from([None, None, 0.01, 0.001, 0.3]), h=hist_add))
    return st.one_of(bloom, cb, cm, ex, ck)


def _kb(keys):
    return [kbytes(k) for k in keys]


def _hex_and_header(ctx, o, raw, cells_len):
    hx = ctx.call(NX, o.export_hex)
    est, added, fpr = struct.unpack("QQf", raw[-20:])
    want = raw[:cells_len].hex() + struct.pack(">QQf", est, added, fpr).hex()
    ctx.check("C06.hex", hx == want, lambda: f"export_hex {hx[-48:]} != cells + big-endian footer {want[-48:]}")
    p = os.path.join(ctx.tmpdir(), "f.h")
    ctx.call(NX, o.export_c_header, p)
    txt = open(p).read()

    def num(name):
        m = re.search(r"%s\s*=\s*([0-9.eE+-]+)\s*;" % name, txt)
        return m.group(1) if m else None

    ctx.check("C06.c_header", num("estimated_elements") == str(est) and num("elements_added") == str(added)
              and num("number_bits") == str(o.number_bits) and num("number_hashes") == str(o.number_hashes),
              lambda: f"C header numbers differ: {num('estimated_elements')}, {num('elements_added')}, {num('number_bits')}, {num('number_hashes')}")
    body = txt[txt.index("bloom[] = {") + len("bloom[] = {"): txt.rindex("}")]
    arr = bytes(int(x, 16) for x in re.findall(r"0x([0-9a-fA-F]{2})", body))
    ctx.check("C06.c_header", arr == bytes.fromhex(hx), "C header byte array differs from fromhex(export_hex())")
    ctx.check("C06.c_header", abs(float(num("false_positive_rate")) - fpr) <= 1e-6 * fpr, "C header false_positive_rate")


def _bloom(case, ctx):
    from probables import BloomFilter, BloomFilterOnDisk

    est, fpr = case["geom"]
    pool = [dk(k) for k in case["pool"]]
    try:
        if case["t"] == "ondisk":
            path = os.path.join(ctx.tmpdir(), "d.blm")
            o = BloomFilterOnDisk(path, est, fpr)
        else:
            o = BloomFilter(est, fpr)
    except Exception as e:  # noqa
        from vlib.core import innermost_is_library
        if not innermost_is_library(e):
            raise
        ctx.feat("rejected_params")
        return False
    try:
        seq = [i % len(pool) for i in case["h"]]
        for i in seq:
            o.add(pool[i])
        raw = ctx.call(NX, bytes, o)
        rc, m, k = cref.bloom_params(est, fpr)
        ctx.check("C06.footer", rc == 0 and (m, k) == (o.number_bits, o.number_hashes), lambda: f"reference derives (m,k)=({m},{k}), library {(o.number_bits, o.number_hashes)}")
        r, want = cref.bloom_write(est, fpr, _kb(pool), seq)
        ctx.check("C06.writer", r == len(raw) and want == raw, lambda: f"library file differs from the reference writer's at byte "
                                                                       f"{next((i for i, (a, b) in enumerate(zip(raw, want)) if a != b), min(len(raw), len(want)))} (len {len(raw)} vs {r})")
        if case["t"] != "ondisk":
            # the file a path export leaves behind - also where a longer or a shorter file was before - is that same byte string
            p2 = os.path.join(ctx.tmpdir(), "x.blm")
            pre = len(pool) % 3
            if pre:
                with open(p2, "wb") as fh:
                    fh.write(b"\xa5" * (len(raw) + 37 if pre == 1 else max(0, len(raw) - 5)))
                ctx.feat("export_over_longer_file" if pre == 1 else "export_over_shorter_file")
            ctx.call(NX, o.export, p2)
            with open(p2, "rb") as fh:
                got = fh.read()
            ctx.check("C06.writer", got == want, lambda: f"file written by export(path) (len {len(got)}) differs from the reference writer's (len {len(want)}); "
                                                         f"{['no file', 'a longer file', 'a shorter file'][pre]} was at the path before")
        if case["t"] == "ondisk":
            o.close()
            ctx.check("C06.writer", open(path, "rb").read() == want, "on-disk backing file differs from the reference writer's file")
            o = BloomFilterOnDisk(path)
        members = nonmembers = 0
        for key in pool + [dk(x) for x in case["probes"]]:
            a = cref.bloom_check(raw, kbytes(key))
            b = o.check(key)
            ctx.check("C06.reader", a in (0, 1) and bool(a) == b, lambda: f"reference reader says {a}, library says {b} for {key!r}")
            members += b
            nonmembers += not b
        _hex_and_header(ctx, o, raw, o.bloom_length)
        ctx.feat("m%%8=%d" % (o.number_bits % 8))
        ctx.feat("bloom_k=%s" % (k if k < 4 else "4-15" if k < 16 else "16+"))
        return len(seq) >= 3 and members >= 1 and nonmembers >= 1
    finally:
        if case["t"] == "ondisk":
            o.close()


def _resolve_amounts(h, npool):
    from collections import Counter
    true, out = Counter(), []
    for ki, n in h:
        ki %= npool
        if n > 0:
            out.append((ki, n))
            true[ki] += n
        elif true[ki] > 0:
            a = 1 + (-n - 1) % true[ki]
            out.append((ki, -a))
            true[ki] -= a
        else:
            out.append((ki, -n))
            true[ki] += -n
    return out


def _cbloom(case, ctx):
    from probables import CountingBloomFilter

    est, fpr = case["geom"]
    pool = [dk(k) for k in case["pool"]]
    try:
        o = CountingBloomFilter(est, fpr)
    except Exception as e:  # noqa
        from vlib.core import innermost_is_library
        if not innermost_is_library(e):
            raise
        ctx.feat("rejected_params")
        return False
    ops = _resolve_amounts(case["h"], len(pool))
    for ki, n in ops:
        (o.add if n > 0 else o.remove)(pool[ki], abs(n))
    raw = ctx.call(NX, bytes, o)
    r, want = cref.cbloom_write(est, fpr, _kb(pool), [k for k, _ in ops], [n for _, n in ops])
    ctx.check("C06.writer", r == len(raw) and want == raw, lambda: f"counting-Bloom file differs from the reference writer's (len {len(raw)} vs {r})")
    members = nonmembers = 0
    for key in pool + [dk(x) for x in case["probes"]]:
        a, b = cref.cbloom_check(raw, kbytes(key)), o.check(key)
        ctx.check("C06.reader", a == b, lambda: f"reference reader count {a}, library {b} for {key!r}")
        members += b > 0
        nonmembers += b == 0
    _hex_and_header(ctx, o, raw, 4 * o.number_bits)
    ctx.feat("cbloom")
    return len(ops) >= 3 and members >= 1 and nonmembers >= 1


def _cms(case, ctx):
    from probables import CountMinSketch

    w, d = case["w"], case["d"]
    pool = [dk(k) for k in case["pool"]]
    o = CountMinSketch(width=w, depth=d)
    ops = _resolve_amounts(case["h"], len(pool))
    for ki, n in ops:
        (o.add if n > 0 else o.remove)(pool[ki], abs(n))
    raw = ctx.call(NX, bytes, o)
    ctx.check("C06.footer", len(raw) == 4 * w * d + 16 and struct.unpack("IIq", raw[-16:]) == (w, d, o.elements_added), "count-min footer / length")
    r, want = cref.cms_write(w, d, _kb(pool), [k for k, _ in ops], [n for _, n in ops])
    ctx.check("C06.writer", r == len(raw) and want == raw, lambda: f"count-min file differs from the reference writer's (len {len(raw)} vs {r})")
    members = nonmembers = 0
    for key in pool + [dk(x) for x in case["probes"]]:
        for qi, qt in enumerate(("min", "mean", "mean-min")):
            if qt == "mean-min" and w < 2:
                continue
            o.query_type = qt
            b = o.check(key)
            rc, a, neg = cref.cms_query(raw, kbytes(key), qi)
            ctx.check("C06.reader", rc == 0 and a == b, lambda: f"reference reader {qt} = {a} (rc {rc}), library {b} for {key!r}")
            if neg:
                ctx.feat("cms_negative_intermediate")
            if qt == "min":
                members += b > 0
                nonmembers += b == 0
    o.query_type = "min"
    ctx.feat("cms_w=%s" % (w if w < 4 else "4+"))
    return len(ops) >= 3 and members >= 1 and nonmembers >= 1


def _expanding(case, ctx):
    from probables import ExpandingBloomFilter, RotatingBloomFilter

    rot = case["t"] == "rot"
    est, fpr, q = case["est"], case["fpr"], case["q"]
    pool = [dk(k) for k in case["pool"]]
    o = RotatingBloomFilter(est, fpr, max_queue_size=q) if rot else ExpandingBloomFilter(est, fpr)
    filters = [[]]  # model: key indices per live filter, by the documented growth / rotation rule
    adds = 0
    for ki, sel in case["h"]:
        ki %= len(pool)
        force = sel == 0
        push = sel == 1
        if push:
            o.push()
            if rot and len(filters) >= q:
                filters.pop(0)
            filters.append([])
            continue
        present = o.check(pool[ki])
        o.add(pool[ki], force)
        adds += 1
        if force or not present:
            if len(filters[-1]) >= est:
                if rot and len(filters) >= q:
                    filters.pop(0)
                filters.append([])
            filters[-1].append(ki)
    raw = ctx.call(NX, bytes, o)
    seq = [ki for f in filters for ki in f]
    filt = [j for j, f in enumerate(filters) for _ in f]
    r, want = cref.expanding_write(est, fpr, len(filters), _kb(pool), seq, filt, adds)
    ctx.check("C06.writer", r == len(raw) and want == raw, lambda: f"{'rotating' if rot else 'expanding'} stream differs from the reference writer's "
                                                                   f"(len {len(raw)} vs {r}, {len(filters)} filters)")
    # reader: a key is present iff some per-filter Bloom block contains it
    rc, m, k = cref.bloom_params(est, fpr)
    bl = (m + 7) // 8
    members = nonmembers = 0
    for key in pool + [dk(x) for x in case["probes"]]:
        hit = False
        for j in range(len(filters)):
            block = raw[j * (8 + bl) + 8: (j + 1) * (8 + bl)] + struct.pack("QQf", est, 0, fpr)
            if cref.bloom_check(block, kbytes(key)) == 1:
                hit = True
        b = o.check(key)
        ctx.check("C06.reader", hit == b, lambda: f"reference reader says {hit}, library says {b} for {key!r}")
        members += b
        nonmembers += not b
    ctx.feat("%s_filters=%s" % (case["t"], len(filters) if len(filters) < 4 else "4+"))
    return len(seq) >= 3 and members >= 1 and nonmembers >= 1


def _cuckoo(case, ctx):
    from probables import CountingCuckooFilter, CuckooFilter
    from probables.exceptions import CuckooFilterFullError

    counting = case["t"] == "ccuckoo"
    K = CountingCuckooFilter if counting else CuckooFilter
    pool = [dk(k) for k in case["pool"]]
    cap, bs = case["cap"], case["bs"]
    if case["er"] is not None:
        o = K.init_error_rate(case["er"], capacity=cap, bucket_size=bs, max_swaps=5, auto_expand=False)
    else:
        o = K(capacity=cap, bucket_size=bs, max_swaps=5, auto_expand=False, finger_size=case["fs"])
    bits = o.fingerprint_size_bits
    mask = (1 << bits) - 1
    model = [[] for _ in range(cap)]  # placement model, valid while no eviction was needed
    model_ok = True
    added = 0
    for ki in case["h"]:
        key = pool[ki % len(pool)]
        fp = (cref.fnv64(kbytes(key)) & mask) or 1
        c1, c2 = fp % cap, cref.fnv64(str(fp).encode()) % cap
        try:
            o.add(key)
        except CuckooFilterFullError:
            ctx.feat("cuckoo_full")
            break
        added += 1
        if model_ok:
            where = None
            for c in (c1, c2):
                for e in model[c]:
                    if (e[0] if counting else e) == fp:
                        where = e
            if where is not None:
                if counting:
                    where[1] += 1
            elif len(model[c1]) < bs:
                model[c1].append([fp, 1] if counting else fp)
            elif len(model[c2]) < bs:
                model[c2].append([fp, 1] if counting else fp)
            else:
                model_ok = False
                ctx.feat("cuckoo_eviction_needed")
    raw = ctx.call(NX, bytes, o)
    table = [[(int(x.finger), int(x.count)) for x in b] for b in o.buckets] if counting else [[int(x) for x in b] for b in o.buckets]
    r, want = cref.cuckoo_write(cap, bs, o.max_swaps, table, counting)
    ctx.check("C06.writer", r == len(raw) and want == raw, lambda: f"cuckoo file differs from the documented serialisation of the bucket table (len {len(raw)} vs {r})")
    if model_ok:
        mt = [[tuple(e) for e in b] for b in model] if counting else model
        r2, want2 = cref.cuckoo_write(cap, bs, o.max_swaps, mt, counting)
        ctx.check("C06.writer", want2 == raw, lambda: f"eviction-free history: library table {table} differs from the placement model {mt}")
        ctx.feat("cuckoo_model_exact")
    members = nonmembers = 0
    for key in pool + [dk(x) for x in case["probes"]]:
        a = cref.cuckoo_check(raw, counting, bits, kbytes(key))
        b = o.check(key)
        ctx.check("C06.reader", a == int(b), lambda: f"reference cuckoo reader says {a}, library says {b!r} for {key!r} ({bits} fingerprint bits)")
        members += bool(b)
        nonmembers += not b
    ctx.feat("cuckoo_bits=%s" % (bits if bits in (8, 16, 32) else "other"))
    return added >= 3 and members >= 1 and nonmembers >= 1


def exhaustive(tier):
    # the footer stores est_elements and the rate, NOT the number of bits: reader and writer agree on the layout only if both derive
    # the same (m, k) for every (n, p).  A different but mathematically equal way of computing the constants moves m by one for about
    # one n in several million (where -n ln p / ln^2 2 falls within a few ulp of an integer), which no sampled geometry ever meets:
    # consecutive ranges are swept instead (sizing routine only, no filter is built)
    chunk = 250000
    spans = [(0.01, 4000000, 8000000), (0.05, 4000000, 6000000)] if tier == "quick" else \
        [(0.01, 1000000, 21000000), (0.05, 1000000, 17000000), (0.001, 1000000, 13000000), (0.1, 1000000, 9000000), (0.0001, 1000000, 9000000)]

    def gen_():
        for p, lo, hi in spans:
            for n0 in range(lo, hi, chunk):
                yield {"t": "sweep", "p": p, "n0": n0, "count": min(chunk, hi - n0)}

    return [("sizing_sweep_%d_values" % sum(hi - lo for _, lo, hi in spans), gen_)]


def _sweep(case, ctx):
    from probables import BloomFilter

    sizing = getattr(BloomFilter, "_get_optimized_params", None)
    if sizing is None:
        ctx.feat("skipped_no_private_sizing")
        return False
    p, n0, count = case["p"], case["n0"], case["count"]
    ms, ks = cref.bloom_params_sweep(n0, count, p)
    bad = None
    for i in range(count):
        rp, k, m = sizing(n0 + i, p)
        if m != ms[i] or k != ks[i]:
            bad = (n0 + i, m, k, ms[i], ks[i])
            break
    ctx.check("C06.sizing_sweep", bad is None,
              lambda: f"est_elements={bad[0]} rate={p}: the library derives (bits, hashes) = ({bad[1]}, {bad[2]}), the C reference ({bad[3]}, {bad[4]})")
    ctx.feat("sweep_rate_%s" % p)
    ctx.op("sweep", p, n0, count)
    return True


def run_case(case, ctx):
    t = case["t"]
    ctx.soft_noexc = True
    if t == "sweep":
        ctx.nt(_sweep(case, ctx))
        return
    if t in ("bloom", "ondisk"):
        nt = _bloom(case, ctx)
    elif t == "cbloom":
        nt = _cbloom(case, ctx)
    elif t == "cms":
        nt = _cms(case, ctx)
    elif t in ("exp", "rot"):
        nt = _expanding(case, ctx)
    else:
        nt = _cuckoo(case, ctx)
    ctx.feat("structure_" + t)
    ctx.nt(bool(nt))
    ctx.op(t, {k: v for k, v in case.items() if k not in ("h",)}, case["h"])
