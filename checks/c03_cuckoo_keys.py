"""C03 - cuckoo filters lose no key through kicks, expansion or a failed insert."""
from vlib.drivers import cuckoo as drv

ID = "C03"
LEVEL = "exploration"
ORACLES = {
    "C03.member": "after every add/remove/expand that returns normally, every key that was added and whose fingerprint has not been "
                  "removed since is reported present (check and `in`)",
    "C03.full_error": "if add (or expand) raises CuckooFilterFullError, every key that was present before the call is still present",
    "C03.no_exception": "no exception other than CuckooFilterFullError from add/expand",
}
RULE = ("Hypothesis draws CuckooFilter or CountingCuckooFilter with capacity 1..6, bucket_size 1..3, max_swaps 1..6, finger_size "
        "{1,2,4} bytes, expansion_rate {2,3}, auto_expand on/off, hash in {default fnv, narrow (few fingerprints, forces equal "
        "fingerprints for different keys, incl. value 0), narrow16, sha}; a pool of 3-12 keys; 3-45 ops add / remove (present and absent "
        "keys) / expand(); and a TAPE of small ints that resolves every internal random choice (which bucket to start from, which slot "
        "to evict) - the schedule is generated input. Schedule slice: for 1/8 of the cases with 2*bucket_size^max_swaps <= 256 (4096 "
        "thorough) the state before a final add is rebuilt and EVERY resolution of that add's random choices is enumerated. Model = "
        "multiset of fingerprints; each pool key's fingerprint is learnt from a fresh single-key filter. Non-trivial = the scripted "
        "chooser was consulted (an eviction chain ran), or an expansion happened, or a Full error was raised. Distinct by resolved "
        "history incl. tape.")
ASSUMPTIONS = ["the library draws its random choices through the `random` attribute of the two cuckoo modules (feature "
               "scripted_random_consulted in the evidence shows the interception works)",
               "choices made during re-insertion inside an expansion are resolved by the same tape; the exhaustive schedule slice covers "
               "the 1+max_swaps choices of the final add only"]
MANIFEST = {
    "technique": "model-based property testing with generated schedules: the filter's internal random choices are scripted from a "
                 "generated tape; exhaustive enumeration of all eviction schedules of a final add for small (bucket_size, max_swaps)",
    "level_text": "Exploration over configurations x histories x schedules. Tiny tables make eviction chains, failed inserts and "
                  "(failed) expansions the common case; schedules are inputs, so a failure is reproducible and shrinks. All "
                  "resolutions are enumerated only on the final-add slice.",
    "level_note": "Trusted: fingerprint-multiset model; interception of `random` at module level.",
}
P = {"member": "C03.member", "full": "C03.full_error"}


def budget(tier):
    return {"cases": 16 * 300 if tier == "quick" else 16 * 5000}


def strategy(tier):
    return drv.case_strategy(tier)


def run_case(case, ctx):
    d = drv.CuckooDriver(case, ctx, P)
    d.run()
    ctx.nt(bool(d.feats & {"eviction_chain", "auto_expansion", "manual_expansion", "full_error"}))
    ctx.trace.insert(0, [case[k] for k in ("cls", "cap", "bs", "swaps", "fs", "rate", "auto", "hash", "pool", "tape")])
