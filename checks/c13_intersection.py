"""C13 - intersection, Jaccard index and operand compatibility rules."""
from hypothesis import strategies as st

from vlib import gen
from vlib.drivers import setops as so

ID = "C13"
LEVEL = "exploration"
ORACLES = {
    "C13.intersection": "compatible pair: intersection cells == bytewise AND of the operands' bit arrays (counting: non-zero exactly "
                        "where both are non-zero); it reports every key both operands report",
    "C13.jaccard": "jaccard_index == popcount(A&B)/popcount(A|B) (counting: non-zero positions) within 1e-12, symmetric, in [0,1], 1.0 for "
                   "identical operands and for two empty operands",
    "C13.incompatible": "operands of different (number_bits, number_hashes) or different hash function: union, intersection and "
                        "jaccard_index return None; count-min join raises CountMinSketchError",
    "C13.foreign": "a foreign operand (None, str, int, list, an unrelated structure) raises TypeError from all operations",
    "C13.unmodified": "no operation modifies an operand other than the receiver of join (exported bytes identical before/after)",
    "C13.returns": "no exception other than the documented TypeError / CountMinSketchError from the operations under test",
    "C13.no_exception": "(soft) an exception while feeding the operands abandons the case; counted, not reported",
}
RULE = ("Hypothesis draws a pair type: plain/on-disk Bloom pairs, counting-Bloom pairs or count-min pairs; a relation: compatible (same "
        "geometry and hash, streams drawn from one pool so that intersections are non-trivial, incl. identical and empty operands), "
        "different geometry, same geometry but different hash strategy (pairs that agree on the library's probe key are skipped and "
        "counted), or a foreign operand. Non-trivial = compatible pair with non-empty intersection and non-empty symmetric difference of "
        "set positions, or an incompatible pair differing only in hash strategy. Distinct by (config, streams).")
ASSUMPTIONS = ["mixing a counting with a plain Bloom filter is outside the claim and not generated",
               "two hash strategies count as different only if they differ on the probe key the library documents using ('test')"]
MANIFEST = {
    "technique": "property-based testing with an independent bytewise oracle (AND / popcount ratio) over generated operand pairs and "
                 "compatibility classes",
    "level_text": "Exploration over operand pairs in four relation classes; cell arrays are compared bytewise with the AND of the "
                  "operands, Jaccard with an independent popcount ratio, operands are checked for byte-identity after every call.",
    "level_note": "Trusted: bytewise reference computations in checks/c13_intersection.py.",
}


def budget(tier):
    return {"cases": 16 * 250 if tier == "quick" else 16 * 5000}


def strategy(tier):
    geom = st.tuples(st.one_of(st.integers(1, 8), st.integers(1, 60)),
                     st.one_of(st.sampled_from([0.5, 0.3, 0.1, 0.05, 0.01, 0.001]), gen.fpr_st(9.0)))
    rel = st.sampled_from(["compat", "compat", "compat", "identical", "empty", "geom", "geom_bits", "hash", "foreign"])
    common = {"rel": rel, "hash": gen.hash_name_st(gen.ALL_HASHES + ["textonly"]), "hash2": gen.hash_name_st(gen.ALL_HASHES + ["textonly"]), "pool": gen.pool_st(2, 10),
              "sa": so.stream_st(False), "sb": so.stream_st(False), "foreign": st.integers(0, 5),
              "sx": so.stream_st(False, max_len=5), "derive": st.sampled_from([None, None, "ia", "ua", "ib", "ub"]),
              "round2": st.sampled_from([None, None, "a", "b"]),
              "va": st.sampled_from(so.OPERAND_VARIANTS), "vb": st.sampled_from(so.OPERAND_VARIANTS), "nudge": st.sampled_from([0, 0, 0, 1, 2]),
              "frac": st.sampled_from([0, 0, 0, 0, 0, 0.5, 0.25]), "fixed8": st.booleans(), "fresh_hf": st.booleans()}
    bloom = st.fixed_dictionaries(dict(common, t=st.just("bloom"), geom=geom, geom2=geom,
                                       ka=st.sampled_from(["bloom", "ondisk"]), kb=st.sampled_from(["bloom", "ondisk"])))
    cb = st.fixed_dictionaries(dict(common, t=st.just("cbloom"), geom=geom, geom2=geom))
    cms = st.fixed_dictionaries(dict(common, t=st.just("cms"), w=st.integers(1, 8), d=st.integers(1, 5), w2=st.integers(1, 8),
                                     d2=st.integers(1, 5)))
    return st.one_of(bloom, bloom, cb, cms)


def _foreign(i):
    from probables import CountMinSketch, QuotientFilter

    return [None, "a string", 7, [1, 2], CountMinSketch(width=3, depth=2), QuotientFilter(quotient=3)][i % 6]


def _popcounts(ca, cb_, counting):
    if counting:
        a = [ca[i:i + 4] != b"\0\0\0\0" for i in range(0, len(ca), 4)]
        b = [cb_[i:i + 4] != b"\0\0\0\0" for i in range(0, len(cb_), 4)]
        return sum(1 for x, y in zip(a, b) if x and y), sum(1 for x, y in zip(a, b) if x or y), sum(a), sum(b)
    inter = sum(bin(x & y).count("1") for x, y in zip(ca, cb_))
    union = sum(bin(x | y).count("1") for x, y in zip(ca, cb_))
    return inter, union, sum(bin(x).count("1") for x in ca), sum(bin(x).count("1") for x in cb_)


def run_case(case, ctx):
    from probables.exceptions import CountMinSketchError

    pool = so.keys_of(case)
    rel, t = case["rel"], case["t"]
    noexc = "C13.returns"
    ctx.soft_noexc = True
    ra, _ = so.resolve(case["sa"], len(pool))
    rb, _ = so.resolve(case["sb"], len(pool))
    if rel == "geom_bits" and t == "cms":
        rel = "geom"
    if rel == "identical":
        rb = list(ra)
    if rel == "empty":
        ra, rb = [], []
    h1 = case["hash"]
    h2 = case["hash2"] if rel == "hash" else h1
    if rel == "hash" and case["foreign"] % 3 == 0:
        # two DIFFERENT strategies that agree on the first value of every key (a compatibility probe that looks at one hash only
        # cannot tell them apart; from depth 2 on they select other cells)
        h1, h2 = [("default", "fnv_first"), ("fnv", "dec_fnv"), ("fnv_first", "dec_fnv"), ("dec_fnv", "default")][case["foreign"] % 4]
        ctx.feat("hash_pair_agreeing_on_first_value_only")
    objs = []
    try:
        if t == "cms":
            w2, d2 = (case["w2"], case["d2"]) if rel == "geom" else (case["w"], case["d"])
            A, B = so.make_cms(case["w"], case["d"], h1), so.make_cms(w2, d2, h2)
            so.feed(A, "cms", pool, ra)
            so.feed(B, "cms", pool, rb)
            ba, bb = bytes(A), bytes(B)
            if rel == "foreign":
                F = _foreign(case["foreign"] + 1 if case["foreign"] % 6 == 4 else case["foreign"])
                st_, r = ctx.lib(noexc, A.join, F, allow=(TypeError,))
                ctx.check("C13.foreign", st_ == "exc", f"join({type(F).__name__}) did not raise TypeError")
                ctx.check("C13.unmodified", bytes(A) == ba, "failed join modified the receiver")
                ctx.nt()
            else:
                differs = (w2, d2) != (case["w"], case["d"]) or A.hashes("test") != B.hashes("test")
                if rel == "hash" and not differs:
                    ctx.feat("hash_pair_agrees_on_probe")
                st_, r = ctx.lib(noexc, A.join, B, allow=(CountMinSketchError,))
                if differs:
                    ctx.check("C13.incompatible", st_ == "exc", "join of mismatched sketches did not raise CountMinSketchError")
                    ctx.check("C13.unmodified", bytes(A) == ba, "failed join modified the receiver")
                    ctx.nt(rel == "hash")
                else:
                    ctx.check("C13.incompatible", st_ == "ok", lambda: f"join of matching sketches raised {r!r}")
                ctx.check("C13.unmodified", bytes(B) == bb, "join modified its argument")
            ctx.feat("cms_" + rel)
        else:
            counting = t == "cbloom"
            ka, kb = ("counting", "counting") if counting else (case["ka"], case["kb"])
            est, fpr = case["geom"]
            est2, fpr2 = case["geom2"] if rel == "geom" else case["geom"]
            frac, va, vb = case.get("frac") or 0, case.get("va", "same"), case.get("vb", "same")
            if counting:
                va, vb = (v if v in ("reload", "hex", "zero") else "same" for v in (va, vb))
            if rel == "geom_bits":
                # the SAME number of bits with a different number of hashes: (2n, p) and (n, p*p) - m = -n ln p / ln^2 2 is equal,
                # k doubles.  Only the hash-count comparison tells such a pair apart when the hash strategy returns a fixed-length
                # list (>= depth values, which the plain and on-disk filters accept: they read the first number_hashes entries)
                est, est2, fpr2 = 2 * est, est, fpr * fpr
                if case.get("fixed8") and not counting:
                    h1 = h2 = "fixed8"
                rel = "geom"
                ctx.feat("pair_same_bits_different_hashes")
            if frac and rel in ("compat", "identical", "empty"):
                # fractional est_elements: accepted by the in-memory constructors, not exportable on the pinned tree (see C12)
                est = est2 = est + frac
                if not counting:
                    ka = kb = "bloom"
                va = va if va == "zero" else "same"
                vb = vb if vb == "zero" else "same"
                ctx.feat("fractional_est_elements")
            else:
                frac = 0
            if case.get("nudge") and rel in ("compat", "identical", "empty"):
                g2_ = so.same_geometry_params(est, fpr, len(case["sa"]) + 2 * len(case["sb"]))
                if g2_ is not None:
                    est2, fpr2 = g2_
                    if case["nudge"] == 2:
                        est, est2, fpr, fpr2 = est2, est, fpr2, fpr
                    ctx.feat("operands_same_geometry_different_nominal_rate" if est2 == est else "operands_same_geometry_different_est_elements")
            snap = (lambda o, k: (so.cells(o, k), o.elements_added)) if frac else (lambda o, k: bytes(o))
            try:
                A = so.make_bloom(ctx, ka, est, fpr, h1, "a")
                objs.append(A)
                if rel == "hash" and ka == "ondisk" and not counting and case["foreign"] % 3 == 1:
                    # the other strategy on a SECOND HANDLE of the very same backing file: same bits, another hash function - still
                    # incompatible operands
                    from probables import BloomFilterOnDisk
                    B = BloomFilterOnDisk(so.PATHS[id(A)], hash_function=so._hf(ctx, h2))
                    so.PATHS[id(B)] = so.PATHS[id(A)]
                    kb = "ondisk"
                    ctx.feat("second_handle_with_another_hash_function")
                else:
                    B = so.make_bloom(ctx, kb, est2, fpr2, h2, "b")
                objs.append(B)
            except Exception as e:  # noqa
                from vlib.core import innermost_is_library
                if not innermost_is_library(e):
                    raise
                ctx.feat("rejected_params")
                return
            ha2 = so.second_handle(ctx, A, ka, h1) if va == "handle2" else None
            hb2 = so.second_handle(ctx, B, kb, h2) if vb == "handle2" else None
            objs.extend(h for h in (ha2, hb2) if h is not None)
            so.feed(A, ka, pool, ra)
            so.feed(B, kb, pool, rb)
            der = case.get("derive")
            if der and rel in ("compat", "identical", "empty"):
                # an operand may itself be the PRODUCT of an earlier intersection / union (bits set, element count an estimate)
                rx, _ = so.resolve(case.get("sx", []), len(pool))
                X = so.make_bloom(ctx, "counting" if counting else "bloom", est, fpr, h1, "x")
                so.feed(X, "counting" if counting else "bloom", pool, rx)
                src = A if der[1] == "a" else B
                prod = (src.intersection if der[0] == "i" else src.union)(X)
                if prod is not None and prod.elements_added >= 0:
                    if der[1] == "a":
                        A, ka = prod, ("counting" if counting else "bloom")
                    else:
                        B, kb = prod, ("counting" if counting else "bloom")
                    ctx.feat("derived_operand_" + der)
                    if prod.elements_added == 0 and any(so.cells(prod, "counting" if counting else "bloom")):
                        ctx.feat("derived_operand_bits_set_but_zero_count")
            # the operands as they reach the operation in real use (reloaded, reopened on disk, counter reassigned, second handle)
            if ha2 is not None and A is objs[0]:
                A = ha2
                ctx.feat("operand_second_live_handle")
            elif va not in ("same", "handle2"):
                A, ka, extra = so.operand_variant(ctx, A, ka, va, h1, "a")
                objs.extend(extra)
                ctx.feat("operand_" + va)
            if hb2 is not None and B is objs[1]:
                B = hb2
                ctx.feat("operand_second_live_handle")
            elif vb not in ("same", "handle2"):
                B, kb, extra = so.operand_variant(ctx, B, kb, vb, h2, "b")
                objs.extend(extra)
                ctx.feat("operand_" + vb)
            ba, bb = snap(A, ka), snap(B, kb)
            ca, cb_ = so.cells(A, ka), so.cells(B, kb)
            if rel == "foreign":
                F = _foreign(case["foreign"])
                for name, fn in (("union", A.union), ("intersection", A.intersection), ("jaccard_index", A.jaccard_index)):
                    st_, r = ctx.lib(noexc, fn, F, allow=(TypeError,))
                    ctx.check("C13.foreign", st_ == "exc", f"{name}({type(F).__name__}) did not raise TypeError (returned {r!r})")
                ctx.nt()
            else:
                differs = (A.number_bits, A.number_hashes) != (B.number_bits, B.number_hashes) or A.hashes("test") != B.hashes("test")
                if rel == "hash" and not differs:
                    ctx.feat("hash_pair_agrees_on_probe")
                U = ctx.call(noexc, A.union, B)
                I = ctx.call(noexc, A.intersection, B)
                J = ctx.call(noexc, A.jaccard_index, B)
                J2 = ctx.call(noexc, B.jaccard_index, A)
                if differs:
                    ctx.check("C13.incompatible", U is None and I is None and J is None and J2 is None,
                              lambda: f"incompatible operands ({rel}): union={U!r} intersection={I!r} jaccard={J!r}/{J2!r}")
                    ctx.nt(rel == "hash")
                else:
                    ctx.check("C13.incompatible", U is not None and I is not None and J is not None, "compatible operands gave None")
                    inter, union, pa, pb = _popcounts(ca, cb_, counting)
                    ci = so.cells(I, "counting" if counting else "bloom")
                    if counting:
                        nz = [ci[i:i + 4] != b"\0\0\0\0" for i in range(0, len(ci), 4)]
                        want = [ca[i:i + 4] != b"\0\0\0\0" and cb_[i:i + 4] != b"\0\0\0\0" for i in range(0, len(ca), 4)]
                        ctx.check("C13.intersection", nz == want, "counting intersection is not non-zero exactly where both operands are")
                    else:
                        ctx.check("C13.intersection", ci == bytes(x & y for x, y in zip(ca, cb_)),
                                  lambda: f"intersection cells {ci.hex()} != AND of operands")
                    for k in pool:
                        if A.check(k) and B.check(k):
                            ctx.check("C13.intersection", bool(I.check(k)), lambda: f"intersection does not report {k!r} which both operands report")
                    want = 1.0 if union == 0 else inter / union
                    ctx.check("C13.jaccard", abs(J - want) <= 1e-12, lambda: f"jaccard_index {J!r} != {inter}/{union}")
                    ctx.check("C13.jaccard", J == J2, f"jaccard_index not symmetric: {J!r} vs {J2!r}")
                    ctx.check("C13.jaccard", 0.0 <= J <= 1.0, f"jaccard_index {J!r} outside [0,1]")
                    if ca == cb_:
                        ctx.check("C13.jaccard", J == 1.0, f"identical operands give {J!r}")
                    JS = ctx.call(noexc, A.jaccard_index, A)
                    ctx.check("C13.jaccard", JS == 1.0, f"jaccard_index of a filter with itself is {JS!r}")
                    ctx.nt(inter > 0 and (pa > inter or pb > inter))
                    ctx.check("C13.unmodified", snap(A, ka) == ba and snap(B, kb) == bb, "a set operation modified an operand")
                    if case.get("round2") and hasattr(B, "clear"):
                        # second round on the SAME objects: clear one operand, add a few keys, and ask again - whatever an operand
                        # may have cached during the first round is stale now
                        tgt, tk = (B, kb) if case["round2"] == "b" else (A, ka)
                        ctx.call(noexc, tgt.clear)
                        rx2, _ = so.resolve(case.get("sx", []), len(pool))
                        so.feed(tgt, tk, pool, [[k, abs(n)] for k, n in rx2])
                        ba, bb = snap(A, ka), snap(B, kb)
                        ca, cb_ = so.cells(A, ka), so.cells(B, kb)
                        inter, union, pa, pb = _popcounts(ca, cb_, counting)
                        I2 = ctx.call(noexc, A.intersection, B)
                        J3 = ctx.call(noexc, A.jaccard_index, B)
                        J4 = ctx.call(noexc, B.jaccard_index, A)
                        ctx.check("C13.incompatible", I2 is not None and J3 is not None, "second round: compatible operands gave None")
                        ci = so.cells(I2, "counting" if counting else "bloom")
                        if counting:
                            nz = [ci[i:i + 4] != b"\0\0\0\0" for i in range(0, len(ci), 4)]
                            want2 = [ca[i:i + 4] != b"\0\0\0\0" and cb_[i:i + 4] != b"\0\0\0\0" for i in range(0, len(ca), 4)]
                            ctx.check("C13.intersection", nz == want2, "second round: counting intersection wrong after clear()")
                        else:
                            ctx.check("C13.intersection", ci == bytes(x & y for x, y in zip(ca, cb_)), "second round: intersection is not the AND of the operands after clear()")
                        wantj = 1.0 if union == 0 else inter / union
                        ctx.check("C13.jaccard", abs(J3 - wantj) <= 1e-12 and J3 == J4, lambda: f"second round: jaccard_index {J3!r}/{J4!r} != {inter}/{union}")
                        ctx.feat("second_round_" + case["round2"])
            ctx.check("C13.unmodified", snap(A, ka) == ba and snap(B, kb) == bb, "a set operation modified an operand")
            ctx.feat("%s_%s_%s_%s" % (t, rel, ka, kb))
        ctx.feat("hash_" + h1)
        ctx.op(t, rel, case.get("geom"), case.get("geom2"), h1, h2, case.get("ka"), case.get("kb"), case["pool"], ra, rb, case["foreign"])
    finally:
        for o in objs:
            so.close(o)
