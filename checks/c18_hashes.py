"""C18 - hash strategies are deterministic, prefix-stable and match reference FNV-1a."""
import hashlib
import struct
import zlib

from hypothesis import strategies as st

from vlib import cref
from vlib.gen import dk, ek, key_st

ID = "C18"
LEVEL = "exploration"
M64 = (1 << 64) - 1
B64 = 14695981039346656037
B32 = 0x811C9DC5
ORACLES = {
    "C18.pure": "f(key, depth) called twice gives equal lists of exactly depth ints (0 <= v < 2^64 for shipped strategies)",
    "C18.prefix": "f(key, d)[:j] == f(key, j) for every 1 <= j <= d",
    "C18.fnv_reference": "default_fnv_1a(key, d)[i] == FNV-1a-64 of the key bytes with basis 14695981039346656037 + 31*i "
                         "(mod 2^64), computed by cref/ref.c and by an independent Python loop; fnv_1a(key, seed) likewise "
                         "for ANY integer seed (negative, > 2^64), so fnv_1a(k, s) == fnv_1a(k, s + t*2^64); fnv_1a_32 with 0x811C9DC5",
    "C18.fnv_reference(text)": "a non-ASCII text key under FNV-1a must hash as FNV-1a of its code points or of its UTF-8 bytes (either is accepted)",
    "C18.text_is_utf8": "md5/sha256 strategies: str key == its UTF-8 bytes; FNV: ASCII str == its bytes",
    "C18.digest_chain": "default_md5/default_sha256 equal the chain recomputed with hashlib (first 8 digest bytes, native order, "
                        "digest fed back as next key)",
    "C18.decorators": "hash_with_depth_int / hash_with_depth_bytes applied to a pure function give the documented chaining "
                      "(int: hex text of previous value; bytes: previous digest) recomputed by the harness",
    "C18.structures": "BloomFilter/CountingBloomFilter/CountMinSketch/ExpandingBloomFilter.hashes(key, depth) equal the strategy's "
                      "output (default depth = number_hashes / sketch depth); the quotient filter stores fnv_1a_32(key) and the "
                      "cuckoo filter stores the low bits of fnv_1a(key) by default",
}
RULE = ("Exhaustive slice: all 65 793 byte strings of length <= 2 (plus their latin-1 text twins when ASCII) at depth 3 (quick) / 8 "
        "(thorough) through every shipped strategy. Random: keys (bytes with all 256 values, ASCII/Latin-1/BMP/astral text, empty) up to "
        "64 units, depth 1..24, arbitrary integer seeds (|s| up to 2^70), user functions for both decorators drawn from a family of "
        "pure functions (keyed blake2b, crc32-based, salted FNV, sha1). Non-trivial = depth >= 2 and key length >= 1; distinct by "
        "(strategy set, key, depth, seed).")
ASSUMPTIONS = ["little-endian host for the 'first 8 digest bytes' rule", "the reference FNV in cref/ref.c is pinned to the published "
               "test vectors ('' a foobar) by regress/C18-fnv-vectors.json"]
MANIFEST = {
    "technique": "property-based testing (Hypothesis) + exhaustive short keys; differential oracle against a C reference FNV-1a "
                 "and hashlib recomputation",
    "level_text": "Exploration with exhaustive coverage of all keys of <= 2 bytes. Every shipped strategy and decorator-built "
                  "strategies are compared with two independent reference implementations (C via ctypes, Python loop) and "
                  "checked for purity and prefix stability over generated (key, depth, seed).",
    "level_note": "Trusted: cref/ref.c FNV (pinned to published vectors), hashlib, the chaining rules restated in the check.",
}


def prepare():
    cref.build()


def budget(tier):
    return {"cases": 16 * 500 if tier == "quick" else 16 * 20000}


def pyfnv64(data, basis):
    h = basis & M64
    for b in data:
        h = ((h ^ b) * 1099511628211) & M64
    return h


def pyfnv32(data, basis):
    h = basis & 0xFFFFFFFF
    for b in data:
        h = ((h ^ b) * 0x01000193) & 0xFFFFFFFF
    return h


# family of pure user functions --------------------------------------------------------------
def _kb(key):
    return key.encode("utf-8") if isinstance(key, str) else bytes(key)


INT_FUNCS = {
    "blake": lambda key, i: int.from_bytes(hashlib.blake2b(_kb(key), digest_size=8, key=b"k%d" % i).digest(), "big"),
    "crc": lambda key, i: (zlib.crc32(_kb(key), i) * 2654435761) & M64,
    "sfnv": lambda key, i: pyfnv64(_kb(key), B64 + 7 * i),
    "small": lambda key, i: (zlib.crc32(_kb(key)) + i) % 97,
}
BYTES_FUNCS = {
    "blake16": lambda key, i: hashlib.blake2b(key, digest_size=16, salt=struct.pack("<Q", i)).digest(),
    "sha1": lambda key, i: hashlib.sha1(key + bytes([i % 256])).digest(),
    "md5s": lambda key, i: hashlib.md5(b"salt" + key).digest(),
    "eight": lambda key, i: hashlib.blake2b(key, digest_size=8).digest(),
}


def strategy(tier):
    longkey = st.one_of(st.binary(max_size=64).map(ek),
                        st.text(alphabet=st.characters(blacklist_categories=("Cs",)), max_size=40).map(ek))
    seed = st.one_of(st.integers(-40, 40), st.integers(-2 ** 70, 2 ** 70),
                     st.sampled_from([2 ** 64, 2 ** 64 - 1, -2 ** 64, 2 ** 63, 594698664718624, (M64 - B64) // 31 + 1]))
    return st.fixed_dictionaries({
        "key": st.one_of(key_st(), key_st(), longkey),
        "depth": st.one_of(st.integers(1, 6), st.integers(1, 24)),
        "seed": seed,
        "intf": st.sampled_from(sorted(INT_FUNCS)),
        "bytesf": st.sampled_from(sorted(BYTES_FUNCS)),
        "n": st.integers(1, 40), "p": st.sampled_from([0.5, 0.1, 0.05, 0.001]),
        "w": st.integers(1, 50), "d": st.integers(1, 8),
    })


def exhaustive(tier):
    depth = 3 if tier == "quick" else 8

    def gen():
        yield {"exh": True, "first": None, "depth": depth}
        for b in range(256):
            yield {"exh": True, "first": b, "depth": depth}

    return [("all_keys_len<=2_depth%d" % depth, gen)]


def _shipped(ctx, key, depth, light=False):
    """all oracles for the shipped strategies on one (key, depth)"""
    from probables import hashes as H

    kb = _kb(key)
    for name, f in (("default_fnv_1a", H.default_fnv_1a), ("default_md5", H.default_md5), ("default_sha256", H.default_sha256)):
        r1 = ctx.call("C18.pure", f, key, depth)
        r2 = ctx.call("C18.pure", f, key, depth)
        ctx.check("C18.pure", r1 == r2 and isinstance(r1, list) and len(r1) == depth
                  and all(isinstance(v, int) and 0 <= v <= M64 for v in r1), lambda: f"{name}({key!r},{depth}) -> {r1!r} / {r2!r}")
        # the returned list belongs to the caller: editing it must not reach later calls (no shared / cached list object)
        saved = list(r1)
        r1.append(0)
        del r1[:1]
        r3 = f(key, depth)
        ctx.check("C18.pure", r3 == saved and r3 is not r1, lambda: f"{name}({key!r},{depth}) after the caller edited an earlier result: {r3!r} != {saved!r}")
        r1 = saved
        js = range(1, depth + 1) if not light else (1, max(1, depth - 1))
        for j in js:
            rj = f(key, j)
            ctx.check("C18.prefix", rj == r1[:j], lambda: f"{name}({key!r},{j}) = {rj} is not a prefix of depth {depth}: {r1}")
        if name == "default_fnv_1a":
            if isinstance(key, bytes) or key.isascii():
                want = cref.default_hashes(kb, depth)
                ctx.check("C18.fnv_reference", r1 == want, lambda: f"default_fnv_1a({key!r},{depth}) = {r1} != C reference {want}")
                want2 = [pyfnv64(kb, B64 + 31 * i) for i in range(depth)]
                ctx.check("C18.fnv_reference", r1 == want2, "python reference differs")
                if isinstance(key, str):
                    ctx.check("C18.text_is_utf8", r1 == f(kb, depth), f"fnv: ascii text {key!r} hashes unlike its bytes")
            else:
                # non-ASCII text: which octets a text key stands for is unspecified, but the result must still be FNV-1a of the
                # key - either of its code points mixed in one by one (the library's observed rule) or of its UTF-8 bytes
                cps = [ord(c) for c in key]
                want_cp = []
                for i in range(depth):
                    h = (B64 + 31 * i) & M64
                    for c in cps:
                        h = ((h ^ c) * 1099511628211) & M64
                    want_cp.append(h)
                want_u8 = [pyfnv64(kb, B64 + 31 * i) for i in range(depth)]
                ctx.check("C18.fnv_reference", r1 in (want_cp, want_u8),
                          lambda: f"default_fnv_1a({key!r},{depth}) = {r1} is FNV-1a neither of the code points {want_cp} nor of the UTF-8 bytes {want_u8}")
                ctx.feat("fnv_non_ascii_text")
        else:
            hf = hashlib.md5 if name == "default_md5" else hashlib.sha256
            want, tmp = [], kb
            for _ in range(depth):
                tmp = hf(tmp).digest()
                want.append(struct.unpack("Q", tmp[:8])[0])
            ctx.check("C18.digest_chain", r1 == want, lambda: f"{name}({key!r},{depth}) = {r1} != hashlib chain {want}")
            if isinstance(key, str):
                ctx.check("C18.text_is_utf8", r1 == f(kb, depth), f"{name}: text {key!r} hashes unlike its UTF-8 bytes")


def _exh_case(case, ctx):
    from probables import hashes as H

    depth = case["depth"]
    first = case["first"]
    keys = [b""] if first is None else [bytes([first])] + [bytes([first, c]) for c in range(256)]
    for kb in keys:
        _shipped(ctx, kb, depth, light=True)
        if kb.isascii():
            _shipped(ctx, kb.decode("ascii"), depth, light=True)
        ctx.check("C18.fnv_reference", H.fnv_1a_32(kb) == cref.fnv32(kb) == pyfnv32(kb, B32), f"fnv_1a_32({kb!r})")
        ctx.check("C18.fnv_reference", H.fnv_1a(kb) == cref.fnv64(kb), f"fnv_1a({kb!r})")
    ctx.feat("exh_keys", len(keys))
    ctx.nt(first is not None)
    ctx.op("exh", first, depth)


VECTORS64 = {b"": 0xCBF29CE484222325, b"a": 0xAF63DC4C8601EC8C, b"foobar": 0x85944171F73967E8}
VECTORS32 = {b"": 0x811C9DC5, b"a": 0xE40C292C, b"foobar": 0xBF9CF968}


def _vectors_case(ctx):
    """published FNV-1a test vectors pin the references themselves (and the library)"""
    from probables import hashes as H

    for k, v in VECTORS64.items():
        if cref.fnv64(k) != v or pyfnv64(k, B64) != v:
            raise RuntimeError("reference FNV-1a-64 is wrong for %r" % k)
        ctx.check("C18.fnv_reference", H.fnv_1a(k) == v and H.fnv_1a(k.decode()) == v, f"fnv_1a({k!r}) != published vector")
    for k, v in VECTORS32.items():
        if cref.fnv32(k) != v or pyfnv32(k, B32) != v:
            raise RuntimeError("reference FNV-1a-32 is wrong for %r" % k)
        ctx.check("C18.fnv_reference", H.fnv_1a_32(k) == v, f"fnv_1a_32({k!r}) != published vector")
    ctx.nt()


def run_case(case, ctx):
    if case.get("vectors"):
        return _vectors_case(ctx)
    if case.get("exh"):
        return _exh_case(case, ctx)
    from probables import (BloomFilter, CountingBloomFilter, CountMinSketch, CuckooFilter, ExpandingBloomFilter,
                           QuotientFilter)
    from probables import hashes as H

    key, depth, seed = dk(case["key"]), case["depth"], case["seed"]
    kb = _kb(key)
    ascii_ok = isinstance(key, bytes) or key.isascii()
    _shipped(ctx, key, depth)

    # seeds -------------------------------------------------------------------------------
    r = ctx.call("C18.fnv_reference", H.fnv_1a, key, seed)
    ctx.check("C18.pure", r == H.fnv_1a(key, seed) and 0 <= r <= M64, "fnv_1a not pure / out of range")
    r32 = ctx.call("C18.fnv_reference", H.fnv_1a_32, key, seed)
    ctx.check("C18.pure", r32 == H.fnv_1a_32(key, seed) and 0 <= r32 <= 0xFFFFFFFF, "fnv_1a_32 not pure / out of range")
    if ascii_ok:
        want = cref.fnv64(kb, (B64 + 31 * seed) & M64)
        ctx.check("C18.fnv_reference", r == want, lambda: f"fnv_1a({key!r}, seed={seed}) = {r} != reference {want}")
        want32 = cref.fnv32(kb, (B32 + 31 * seed) & 0xFFFFFFFF)
        ctx.check("C18.fnv_reference", r32 == want32, lambda: f"fnv_1a_32({key!r}, seed={seed}) = {r32} != reference {want32}")
    for t in (1, -1, 3):
        ctx.check("C18.fnv_reference", H.fnv_1a(key, seed + t * 2 ** 64) == r, f"fnv_1a seed {seed} vs seed + {t}*2^64")
        ctx.check("C18.fnv_reference", H.fnv_1a_32(key, seed + t * 2 ** 32) == r32, f"fnv_1a_32 seed {seed} vs + {t}*2^32")
    ctx.feat("seed_" + ("neg" if seed < 0 else "ge2^64" if seed >= 2 ** 64 else "small" if seed < 100 else "mid"))

    # decorators ----------------------------------------------------------------------------
    fi = INT_FUNCS[case["intf"]]
    di = H.hash_with_depth_int(fi)
    r1 = ctx.call("C18.decorators", di, key, depth)
    want, tmp = [], None
    for i in range(depth):
        tmp = fi(key, 0) if i == 0 else fi(f"{tmp:x}", i)
        want.append(tmp)
    ctx.check("C18.decorators", r1 == want, lambda: f"hash_with_depth_int[{case['intf']}]({key!r},{depth}) = {r1} != {want}")
    ctx.check("C18.pure", r1 == di(key, depth) and len(r1) == depth, "decorated int function not pure")
    for j in range(1, depth + 1):
        ctx.check("C18.prefix", di(key, j) == r1[:j], f"decorated int function not prefix-stable at {j}")
    fb = BYTES_FUNCS[case["bytesf"]]
    db = H.hash_with_depth_bytes(fb)
    r2 = ctx.call("C18.decorators", db, key, depth)
    want, tmp = [], kb
    for i in range(depth):
        tmp = fb(tmp, i)
        want.append(struct.unpack("Q", tmp[:8])[0])
    ctx.check("C18.decorators", r2 == want, lambda: f"hash_with_depth_bytes[{case['bytesf']}]({key!r},{depth}) = {r2} != {want}")
    ctx.check("C18.pure", r2 == db(key, depth) and len(r2) == depth, "decorated bytes function not pure")
    for j in range(1, depth + 1):
        ctx.check("C18.prefix", db(key, j) == r2[:j], f"decorated bytes function not prefix-stable at {j}")
    if isinstance(key, str):
        ctx.check("C18.text_is_utf8", db(kb, depth) == r2, "decorated bytes function: text unlike its UTF-8 bytes")

    # structures ----------------------------------------------------------------------------
    for name, strat in (("default", None), ("md5", H.default_md5), ("dec_int", di), ("dec_bytes", db)):
        ref = H.default_fnv_1a if strat is None else strat
        bf = BloomFilter(case["n"], case["p"], hash_function=strat)
        cb = CountingBloomFilter(case["n"], case["p"], hash_function=strat)
        cm = CountMinSketch(width=case["w"], depth=case["d"], hash_function=strat)
        eb = ExpandingBloomFilter(case["n"], case["p"], hash_function=strat)
        ctx.check("C18.structures", bf.hashes(key, depth) == ref(key, depth), f"BloomFilter.hashes with {name}")
        ctx.check("C18.structures", bf.hashes(key) == ref(key, bf.number_hashes), f"BloomFilter.hashes default depth with {name}")
        ctx.check("C18.structures", cb.hashes(key, depth) == ref(key, depth) and cb.hashes(key) == ref(key, cb.number_hashes),
                  f"CountingBloomFilter.hashes with {name}")
        ctx.check("C18.structures", cm.hashes(key, depth) == ref(key, depth) and cm.hashes(key) == ref(key, case["d"]),
                  f"CountMinSketch.hashes with {name}")
        ctx.check("C18.structures", eb.hash_function is ref, f"ExpandingBloomFilter.hash_function with {name}")
    if ascii_ok:
        qf = QuotientFilter(quotient=3)
        qf.add(key)
        got = qf.get_hashes()
        ctx.check("C18.structures", got == [cref.fnv32(kb)], lambda: f"quotient filter stores {got} for {key!r}, fnv32 = {cref.fnv32(kb)}")
        fs = 1 + depth % 4
        ck = CuckooFilter(capacity=7, bucket_size=2, finger_size=fs)
        ck.add(key)
        stored = [int(x) for b in ck.buckets for x in b]
        fp = cref.fnv64(kb) & ((1 << (8 * fs)) - 1)
        ctx.check("C18.structures", stored in ([fp], [fp or 1]), lambda: f"cuckoo stores {stored} for {key!r}, low {8*fs} bits of fnv = {fp}")
        if stored:
            idx = [i for i, b in enumerate(ck.buckets) if len(b)][0]
            cands = (stored[0] % 7, cref.fnv64(str(stored[0]).encode()) % 7)
            ctx.check("C18.structures", idx in cands, lambda: f"cuckoo bucket {idx} not in candidates {cands}")
    ctx.feat("depth=%s" % (depth if depth < 4 else "4-8" if depth < 9 else "9-24"))
    ctx.feat("key_" + ("bytes" if isinstance(key, bytes) else "ascii" if key.isascii() else "nonascii"))
    ctx.nt(depth >= 2 and len(kb) >= 1)
    ctx.op(case["key"], depth, seed, case["intf"], case["bytesf"])
