"""C08 - counting filters count exactly and removal undoes addition."""
from hypothesis import strategies as st

from vlib.drivers import cbloom, cuckoo

ID = "C08"
LEVEL = "exploration"
ORACLES = {
    "C08.cb_lower": "counting Bloom: check(k) >= outstanding additions of k for every pool key after every step",
    "C08.cb_undo": "counting Bloom: whenever the multiset of outstanding additions returns to an earlier value, bytes() equals the bytes "
                   "recorded then (cells and element total)",
    "C08.cb_absent": "counting Bloom: remove of a key with check(k) == 0 returns 0 and leaves the exported bytes unchanged",
    "C08.cc_counts": "counting cuckoo: check(k) == sum of outstanding additions of all keys sharing k's fingerprint, after every step, "
                     "every eviction and every expansion",
    "C08.cc_absent": "counting cuckoo: remove of a key reported absent returns False and leaves the bucket table unchanged; remove of a "
                     "present key returns True",
    "C08.no_exception": "no unexpected exception (CuckooFilterFullError from add/expand is allowed)",
}
RULE = ("Half of the cases: CountingBloomFilter with est 1..40, fpr from a list or 10^-u, 12 hash strategies (incl. ones whose positions "
        "coincide within a key and across keys), pool of 2-8 keys, 3-40 ops add(key, n<=1000) / remove(key, n) with n resolved to "
        "1 + tape % outstanding(key) (nothing outstanding: remove of an absent key if check == 0, else an add) / reload. Other half: "
        "CountingCuckooFilter in the C03 domain (tiny tables, scripted random tape, repeated adds of the same key so bins carry counts "
        "> 1 when kicked or re-inserted, schedule enumeration slice). Non-trivial = counting Bloom: a removal while another positive "
        "key shares a cell; cuckoo: an eviction chain or expansion while some bin has count > 1. Distinct by resolved history.")
ASSUMPTIONS = ["removals never exceed the key's outstanding count; amounts far below the 2^32-1 saturation limit"]
MANIFEST = {
    "technique": "model-based property testing: Counter / fingerprint-multiset models, exact byte-level undo oracle, scripted eviction "
                 "schedules for the counting cuckoo filter",
    "level_text": "Exploration of add/remove histories; the undo oracle compares complete exports whenever the model multiset recurs, "
                  "the cuckoo count oracle is evaluated for every pool key after every step under generated and enumerated schedules.",
    "level_note": "Trusted: Counter model; fingerprints learnt from a fresh single-key filter; interception of `random`.",
}
PB = {"lower": "C08.cb_lower", "undo": "C08.cb_undo", "absent": "C08.cb_absent"}
PC = {"counts": "C08.cc_counts", "absent": "C08.cc_absent"}


def budget(tier):
    return {"cases": 16 * 300 if tier == "quick" else 16 * 5000}


def strategy(tier):
    cc = cuckoo.case_strategy(tier, classes=("counting",)).map(lambda c: dict(c, t="ccuckoo"))
    return st.one_of(cbloom.case_strategy(tier), cc)


def run_case(case, ctx):
    if case["t"] == "cbloom":
        d = cbloom.CBloomDriver(case, ctx, PB)
        if d.run():
            ctx.nt("remove_with_shared_cell" in d.feats)
        ctx.trace.insert(0, ["cbloom", case["est"], case["fpr"], case["hash"], case["pool"]])
    else:
        d = cuckoo.CuckooDriver(case, ctx, PC)
        d.run()
        ctx.nt("expansion_with_count>1" in d.feats or ("eviction_chain" in d.feats and "increment_existing" in d.feats))
        ctx.trace.insert(0, [case[k] for k in ("cls", "cap", "bs", "swaps", "fs", "rate", "auto", "hash", "pool", "tape")])
