#!/usr/bin/env python3
"""Sensitivity (mutation) runner: tools/mut.py C20 [name-substring] [--tier quick]

For every mutant in mutants/<ID>.json ({name, file, old, new[, count]}) copy /repo/probables to a
scratch directory outside /repo and /verif, apply the textual replacement, run the check against
the copy (VERIF_REPO) and record killed / survived and the seconds it took.  Optionally also runs
the repository's own test-suite against the mutant (--suite) to show it stays green.
The scratch copy is removed afterwards.  Results go to mutants/results/<ID>.json.
"""
import json
import os
import shutil
import subprocess
import sys
import tempfile
import time

VERIF = os.path.dirname(os.path.dirname(os.path.abspath(__file__)))
REPO = "/repo"


def main():
    args = [a for a in sys.argv[1:] if not a.startswith("--")]
    flags = [a for a in sys.argv[1:] if a.startswith("--")]
    pid = args[0].upper()
    sub = args[1] if len(args) > 1 else ""
    tier = "quick"
    for f in flags:
        if f.startswith("--tier="):
            tier = f.split("=", 1)[1]
    suite = "--suite" in flags
    muts = json.load(open(os.path.join(VERIF, "mutants", pid + ".json")))
    results = []
    for m in muts:
        if sub and sub not in m["name"]:
            continue
        scratch = tempfile.mkdtemp(prefix="verif-mut-")
        try:
            shutil.copytree(os.path.join(REPO, "probables"), os.path.join(scratch, "probables"))
            if suite:
                shutil.copytree(os.path.join(REPO, "tests"), os.path.join(scratch, "tests"))
            p = os.path.join(scratch, m["file"])
            src = open(p).read()
            cnt = src.count(m["old"])
            want = m.get("count", 1)
            if cnt != want:
                print(f"[{pid}] {m['name']}: pattern occurs {cnt}x (want {want}) - SKIPPED")
                results.append({"name": m["name"], "status": "skipped-pattern"})
                continue
            open(p, "w").write(src.replace(m["old"], m["new"]))
            env = dict(os.environ, VERIF_REPO=scratch, VERIF_OUT=os.path.join(scratch, "out"))
            env.setdefault("VERIF_SEED", "1")
            t0 = time.time()
            r = subprocess.run([os.path.join(VERIF, "check"), pid, "--tier", tier], env=env,
                               capture_output=True, text=True)
            dt = time.time() - t0
            status = {0: "SURVIVED", 1: "killed"}.get(r.returncode, f"harness-error({r.returncode})")
            oracles = [ln.strip() for ln in r.stdout.splitlines() if "failing oracle" in ln]
            suite_res = None
            if suite:
                s = subprocess.run(["/venv/bin/python", "-m", "pytest", "-q", "-x", "-p",
                                    "no:cacheprovider", "tests"], cwd=scratch, capture_output=True,
                                   text=True, env=dict(os.environ, PYTHONPATH=scratch))
                suite_res = "suite-green" if s.returncode == 0 else "suite-red"
            print(f"[{pid}] {m['name']}: {status} in {dt:.1f}s {suite_res or ''}")
            for o in oracles[:3]:
                print("      ", o[:200])
            if r.returncode not in (0, 1):
                print(r.stderr[-1500:])
            results.append({"name": m["name"], "status": status, "seconds": round(dt, 1),
                            "oracles": oracles[:5], "suite": suite_res})
        finally:
            shutil.rmtree(scratch, ignore_errors=True)
    os.makedirs(os.path.join(VERIF, "mutants", "results"), exist_ok=True)
    if not sub:
        json.dump(results, open(os.path.join(VERIF, "mutants", "results", pid + ".json"), "w"),
                  indent=1)
    # replays written while running against mutants are not evidence about /repo
    return 0


if __name__ == "__main__":
    sys.exit(main())
