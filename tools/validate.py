#!/usr/bin/env python3
"""Validate MANIFEST.json and every evidence file against the schemas (run with python3-vt)."""
import glob, json, sys, os
import jsonschema
V = os.path.dirname(os.path.dirname(os.path.abspath(__file__)))
ok = True
def val(path, schema):
    global ok
    try:
        jsonschema.validate(json.load(open(path)), json.load(open(schema)))
        print("valid  ", os.path.relpath(path, V))
    except Exception as e:
        ok = False
        print("INVALID", os.path.relpath(path, V), str(e)[:300])
val(os.path.join(V, "MANIFEST.json"), "/root/.vp/MANIFEST.schema.json")
for f in sorted(glob.glob(os.path.join(V, "evidence", "*.json"))):
    val(f, "/root/.vp/EVIDENCE.schema.json")
sys.exit(0 if ok else 1)
