#!/bin/bash
# quietness on the unchanged tree: run every check at several seeds in fresh processes; print only failures
cd "$(dirname "$0")/.." || exit 2
seeds="${*:-11 12 13 14 15}"
bad=0
for s in $seeds; do
  for i in 01 02 03 04 05 06 07 08 09 10 11 12 13 14 15 16 17 18 19 20; do
    out=$(VERIF_SEED=$s VERIF_OUT=/tmp/verif-seeds-out ./check C$i --tier quick 2>&1); rc=$?
    if [ $rc -ne 0 ]; then bad=1; echo "seed $s C$i rc=$rc"; echo "$out" | tail -5; fi
  done
  echo "seed $s done"
done
rm -rf /tmp/verif-seeds-out
exit $bad
