#!/usr/bin/env python3
"""Which library lines do the checks never execute?  tools/libcov.py [C01 C02 ...]
Runs each check (quick tier, reduced case count, 4 shards) with VERIF_COV set, merges the executed (file, line) pairs and prints,
per library file, the executable lines no check reached.  A diagnostic for generator blind spots, not a verdict."""
import dis, glob, json, os, subprocess, sys, tempfile, shutil
VERIF = os.path.dirname(os.path.dirname(os.path.abspath(__file__)))
REPO = os.environ.get("VERIF_REPO", "/repo")
ids = [a.upper() for a in sys.argv[1:]] or ["C%02d" % i for i in range(1, 21)]
d = tempfile.mkdtemp(prefix="verif-cov-")
try:
    for pid in ids:
        env = dict(os.environ, VERIF_COV=d, VERIF_SHARDS="8", VERIF_OUT=os.path.join(d, "out"))
        if pid in ("C04", "C11"):
            env["VERIF_CASES"] = "400"
        r = subprocess.run([os.path.join(VERIF, "check"), pid, "--tier", "quick"], env=env, capture_output=True, text=True)
        print(pid, "rc", r.returncode, file=sys.stderr)
    seen = set()
    for f in glob.glob(os.path.join(d, "*.json")):
        seen |= {tuple(x) for x in json.load(open(f))}
    def exec_lines(path):
        src = open(path).read()
        out = set()
        def walk(code):
            for _, _, ln in code.co_lines():
                if ln: out.add(ln)
            for c in code.co_consts:
                if hasattr(c, "co_code"): walk(c)
        walk(compile(src, path, "exec"))
        return out
    total = miss = 0
    for path in sorted(glob.glob(os.path.join(REPO, "probables", "**", "*.py"), recursive=True)):
        ex = exec_lines(path)
        got = {ln for f, ln in seen if f == path}
        # module-level / def lines execute at import time (before tracing): ignore lines outside function bodies
        src = open(path).read().splitlines()
        missing = sorted(l for l in ex - got if not src[l-1].lstrip().startswith(("def ", "class ", "@", "import ", "from ", '"""')) and src[l-1].startswith("        "))
        total += len(ex); miss += len(missing)
        if missing:
            print("\n%s: %d executable lines inside functions never reached" % (os.path.relpath(path, REPO), len(missing)))
            for l in missing:
                print("   %4d  %s" % (l, src[l-1].strip()[:110]))
    print("\nunreached function-body lines: %d" % miss)
finally:
    shutil.rmtree(d, ignore_errors=True)
