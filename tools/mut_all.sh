#!/bin/bash
# run every mutant list and write mutants/SUMMARY.md
cd "$(dirname "$0")/.." || exit 2
for f in mutants/C*.json; do
  id=$(basename "$f" .json)
  python3 tools/mut.py "$id" "$@" > "mutants/results/$id.log" 2>&1
done
python3 - <<'PY'
import json, glob, os
rows=[]
tot=k=0
for f in sorted(glob.glob('mutants/results/C*.json')):
    pid=os.path.basename(f)[:-5]
    for r in json.load(open(f)):
        eq = r['name'].startswith('EQUIVALENT') or '_DOMAIN_' in r['name']
        rows.append((pid, r['name'], r.get('status'), r.get('seconds'), r.get('suite') or '', '; '.join(o.split(':')[0] for o in r.get('oracles',[])[:2])))
        if not eq:
            tot+=1; k+= r.get('status')=='killed'
with open('mutants/SUMMARY.md','w') as f:
    f.write("# Sensitivity (mutation) results, quick tier, VERIF_SEED=1\n\n%d of %d non-equivalent hand-written mutants killed. Mutants marked EQUIVALENT / Cxx_DOMAIN (the broken clause belongs to property Cxx, whose own list has the same mutant killed) survive by design (see their note in mutants/Cxx.json).\n`suite-green` = the repository's own 312 tests still pass with the mutant (the interesting class).\n\n| property | mutant | result | s | repo suite | first failing oracles |\n|---|---|---|---|---|---|\n" % (k, tot))
    for r in rows:
        f.write("| %s | %s | %s | %s | %s | %s |\n" % r)
print(k, "of", tot, "killed")
PY
