#!/usr/bin/env python3
"""Regenerate MANIFEST.json from the check modules (each carries its own MANIFEST dict)."""
import importlib
import json
import os
import sys

VERIF = os.path.dirname(os.path.dirname(os.path.abspath(__file__)))
sys.path.insert(0, VERIF)
os.environ.setdefault("VERIF_REPO", "/repo")
from vlib import core  # noqa

core.import_repo()
props = [json.loads(l) for l in open(os.path.join(VERIF, "properties.jsonl"))]
checks, na = [], []
for p in props:
    pid = p["id"]
    try:
        mod = core.load_module(pid)
    except core.HarnessError:
        na.append({"property_id": pid, "reason": "check not built yet (work in progress); see DESIGN.md section 3 for the planned generator and oracle"})
        continue
    m = mod.MANIFEST
    checks.append({
        "property_id": pid,
        "quick_cmd": f"./check {pid} --tier quick",
        "thorough_cmd": f"./check {pid} --tier thorough",
        "evidence_file": f"evidence/{pid}.json",
        "replay_cmd_template": f"./check {pid} --replay {{path}}",
        "engine": "hypothesis-sharded",
        "level_claimed": {"category": getattr(mod, "LEVEL", "exploration"), "text": m["level_text"],
                          "design_ref": m.get("design_ref", f"DESIGN.md section 3 / {pid}")},
        "level_note": m["level_note"],
        "technique": m["technique"],
    })
man = {
    "version": 1,
    "setup_cmd": "bash setup.sh",
    "hooks": {
        "guard": "PYPROBABLES_VERIF",
        "enable": "no source hooks are needed: the checks import /repo's working tree directly (VERIF_REPO, default /repo); cuckoo randomness is scripted by rebinding the `random` attribute of the two cuckoo modules from the harness, crash points are observed with sys.settrace",
        "baseline_off_cmd": "cd /repo && /venv/bin/python -m pytest -ra -q -p no:cacheprovider --timeout=900 --continue-on-collection-errors",
        "source_commits": [],
        "add_only": True,
    },
    "engines": [
        {"name": "hypothesis-sharded", "path": "vlib/core.py",
         "serves_properties": [c["property_id"] for c in checks],
         "kind_free_text": "Hypothesis 6.168 strategies as case generators (16 seeded shards, generate phase only), per-oracle failure bucketing, delta-debugging shrinker over the operation list, JSON replay files, exhaustive enumeration of small finite slices, C reference reader/writer via ctypes (C06/C18)"},
    ],
    "checks": checks,
    "not_applicable": na,
    "notes": "All checks: ./check <ID> --tier quick|thorough ; VERIF_SEED selects the seed; exit 0/1/2 = held / VIOLATION / harness error. Known findings: KNOWN_FINDINGS.txt.",
}
json.dump(man, open(os.path.join(VERIF, "MANIFEST.json"), "w"), indent=1)
print("checks:", [c["property_id"] for c in checks], "not_applicable:", [n["property_id"] for n in na])
