#!/usr/bin/env python3
"""Evaluate a seeded breaking change against the checks.

  tools/seeded.py eval <Cxx> <patch.diff> <demo.py> [--checks C01,C05] [--tier quick] [--keep name]
     copies /repo (probables + tests) to a scratch dir under /tmp, confirms the demo passes there, applies the patch, confirms
     the repository's own test-suite still passes and the demo now fails, then runs the named checks (default: the property's
     own check) against the patched copy (VERIF_REPO) and reports which of them raise a VIOLATION.  With --keep the patch, the
     demo and a meta.json are stored under seeded/<name>/.
  tools/seeded.py table
     rewrites seeded/RESULTS.md from the stored meta.json files without running anything.
  tools/seeded.py rerun [name-substring]
     re-runs every stored seeded change (seeded/*/meta.json) against the checks recorded as catching it and against the
     property's own check, and rewrites seeded/RESULTS.md.
The scratch copy is removed afterwards.
"""
import json
import os
import shutil
import subprocess
import sys
import tempfile
import time

VERIF = os.path.dirname(os.path.dirname(os.path.abspath(__file__)))
REPO = "/repo"
PY = "/venv/bin/python"


def sh(cmd, cwd=None, env=None, timeout=3600):
    return subprocess.run(cmd, cwd=cwd, env=env, capture_output=True, text=True, timeout=timeout)


def make_scratch():
    d = tempfile.mkdtemp(prefix="verif-seed-")
    shutil.copytree(os.path.join(REPO, "probables"), os.path.join(d, "probables"))
    shutil.copytree(os.path.join(REPO, "tests"), os.path.join(d, "tests"))
    return d


def run_demo(scratch, demo):
    env = dict(os.environ, PYTHONPATH=scratch, PYTHONDONTWRITEBYTECODE="1")
    shutil.copy(demo, os.path.join(scratch, "demo.py"))
    r = sh([PY, "-B", "demo.py"], cwd=scratch, env=env, timeout=600)
    return r.returncode, (r.stdout + r.stderr)[-600:]


def run_suite(scratch):
    env = dict(os.environ, PYTHONPATH=scratch, PYTHONDONTWRITEBYTECODE="1")
    r = sh([PY, "-B", "-m", "pytest", "-q", "-p", "no:cacheprovider", "tests"], cwd=scratch, env=env, timeout=1200)
    tail = (r.stdout.strip().splitlines() or [""])[-1]
    return r.returncode, tail


def run_check(scratch, pid, tier, seed="1"):
    env = dict(os.environ, VERIF_REPO=scratch, VERIF_OUT=os.path.join(scratch, "out"), VERIF_SEED=seed)
    t0 = time.time()
    r = sh([os.path.join(VERIF, "check"), pid, "--tier", tier], env=env, timeout=7200)
    dt = time.time() - t0
    oracles = [ln.strip()[len("failing oracle "):] for ln in r.stdout.splitlines() if "failing oracle" in ln]
    return r.returncode, round(dt, 1), oracles, r.stderr[-400:]


def evaluate(pid, patch, demo, checks, tier, keep=None, needs=""):
    scratch = make_scratch()
    res = {"property": pid, "patch": os.path.basename(patch), "tier": tier}
    try:
        rc0, out0 = run_demo(scratch, demo)
        res["demo_on_original"] = rc0
        ap = sh(["git", "apply", "--unsafe-paths", "--directory=" + scratch, os.path.abspath(patch)], cwd="/")
        if ap.returncode != 0:
            ap = sh(["patch", "-p1", "-i", os.path.abspath(patch)], cwd=scratch)
        res["patch_applies"] = ap.returncode == 0
        if ap.returncode != 0:
            res["error"] = (ap.stdout + ap.stderr)[-400:]
            return res
        src, tail = run_suite(scratch)
        res["suite_with_patch"] = tail
        rc1, out1 = run_demo(scratch, demo)
        res["demo_with_patch"] = rc1
        res["demo_output"] = out1[-300:]
        res["valid_seed"] = bool(rc0 == 0 and rc1 != 0 and src == 0)
        res["checks"] = {}
        for c in checks:
            rc, dt, oracles, err = run_check(scratch, c, tier)
            res["checks"][c] = {"exit": rc, "seconds": dt, "oracles": oracles[:4]}
            if rc not in (0, 1):
                res["checks"][c]["stderr"] = err
        res["caught_by"] = [c for c, v in res["checks"].items() if v["exit"] == 1]
    finally:
        shutil.rmtree(scratch, ignore_errors=True)
    if keep:
        d = os.path.join(VERIF, "seeded", keep)
        os.makedirs(d, exist_ok=True)
        for src, name in ((patch, "patch.diff"), (demo, "demo.py")):
            dst = os.path.join(d, name)
            if os.path.abspath(src) != os.path.abspath(dst):
                shutil.copy(src, dst)
        meta = {"property": pid, "needs_to_manifest": needs, "valid_seed": res.get("valid_seed"),
                "suite_with_patch": res.get("suite_with_patch"), "demo_on_original_exit": res.get("demo_on_original"),
                "demo_with_patch_exit": res.get("demo_with_patch"), "checks_run": res.get("checks"),
                "caught_by": res.get("caught_by"), "ran": "tools/seeded.py eval %s patch.diff demo.py --checks %s --tier %s" % (pid, ",".join(checks), tier)}
        if os.path.exists(os.path.join(d, "meta.json")):
            old = json.load(open(os.path.join(d, "meta.json")))
            meta["needs_to_manifest"] = needs or old.get("needs_to_manifest", "")
            meta["history"] = old.get("history", []) + [{k: old.get(k) for k in ("caught_by", "ran")}]
            for k in ("classification", "rebased"):  # notes written by hand stay
                if k in old:
                    meta[k] = old[k]
        json.dump(meta, open(os.path.join(d, "meta.json"), "w"), indent=1)
    return res


def main():
    a = sys.argv[1:]
    if a[0] == "eval":
        pid, patch, demo = a[1].upper(), a[2], a[3]
        checks, tier, keep, needs = [pid], "quick", None, ""
        for i, x in enumerate(a):
            if x == "--checks":
                checks = a[i + 1].split(",")
            if x == "--tier":
                tier = a[i + 1]
            if x == "--keep":
                keep = a[i + 1]
            if x == "--needs":
                needs = a[i + 1]
        res = evaluate(pid, patch, demo, checks, tier, keep, needs)
        print(json.dumps(res, indent=1))
        return 0
    if a[0] == "rerun":
        sub = a[1] if len(a) > 1 else ""
        tier = "quick"
        rows = []
        base = os.path.join(VERIF, "seeded")
        for name in sorted(os.listdir(base)):
            d = os.path.join(base, name)
            if not os.path.isdir(d) or sub not in name:
                continue
            meta = json.load(open(os.path.join(d, "meta.json")))
            pid = meta["property"]
            checks = sorted(set([pid] + list(meta.get("caught_by") or [])))
            res = evaluate(pid, os.path.join(d, "patch.diff"), os.path.join(d, "demo.py"), checks, tier, keep=name)
            rows.append((name, pid, res.get("valid_seed"), res.get("caught_by"), {c: v["seconds"] for c, v in res.get("checks", {}).items()}))
            print(name, pid, "valid" if res.get("valid_seed") else "INVALID", "caught by", res.get("caught_by"))
        with open(os.path.join(base, "RESULTS.md"), "w") as f:
            f.write("| seeded change | property | valid (suite green, demo fails) | caught by (quick tier) | seconds |\n|---|---|---|---|---|\n")
            for r in rows:
                f.write("| %s | %s | %s | %s | %s |\n" % r)
        return 0
    if a[0] == "table":
        # rewrite seeded/RESULTS.md from the stored meta.json files (each holds the outcome of its most recent evaluation)
        base = os.path.join(VERIF, "seeded")
        rows = []
        for name in sorted(os.listdir(base)):
            mp = os.path.join(base, name, "meta.json")
            if not os.path.exists(mp):
                continue
            m = json.load(open(mp))
            note = m.get("classification") or ""
            if m.get("rebased"):
                note = (note + "; " if note else "") + "patch re-based onto the repaired tree"
            rows.append((name, m["property"], m.get("valid_seed"), m.get("caught_by"),
                         {c: v.get("seconds") for c, v in (m.get("checks_run") or {}).items()}, note.replace("|", "/")[:260]))
        with open(os.path.join(base, "RESULTS.md"), "w") as f:
            f.write("Most recent evaluation of every stored seeded change against the final checks (quick tier, VERIF_SEED=1; `tools/seeded.py rerun` "
                    "re-evaluates them all, `tools/seeded.py table` rewrites this file from seeded/*/meta.json).\n\n")
            f.write("| seeded change | property | valid (suite green, demo fails) | caught by (quick tier) | seconds | note |\n|---|---|---|---|---|---|\n")
            for r in rows:
                f.write("| %s | %s | %s | %s | %s | %s |\n" % r)
        n_valid = sum(1 for r in rows if r[2])
        n_caught = sum(1 for r in rows if r[2] and r[3])
        print(len(rows), "changes;", n_valid, "valid;", n_caught, "caught;", "not caught:", [r[0] for r in rows if r[2] and not r[3]])
        return 0
    print(__doc__)
    return 2


if __name__ == "__main__":
    sys.exit(main())
