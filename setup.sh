#!/bin/bash
# Offline setup: make sure hypothesis is importable by the interpreter the checks use and build
# the C reference library.  Uses only files on disk.
cd "$(dirname "$0")" || exit 2
PY=/venv/bin/python
[ -x "$PY" ] || PY=python3
if ! "$PY" -c "import hypothesis" 2>/dev/null; then
  mkdir -p .deps
  "$PY" -m pip install --no-index --find-links /opt/veriftools/wheels --target .deps hypothesis || exit 2
fi
PYTHONPATH="$PWD/.deps" "$PY" -c "import hypothesis; print('hypothesis', hypothesis.__version__)" || exit 2
if [ -f cref/ref.c ]; then
  "$PY" -B -c "import sys; sys.path.insert(0,'.'); from vlib import cref; cref.build(force=True); print('cref built')" || exit 2
fi
mkdir -p evidence replays
exit 0
