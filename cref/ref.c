/* Independent reference reader / writer for the pyprobables export formats and the FNV-1a
 * hashing rule.  Written from the format description only (DESIGN.md C06):
 *
 *   Bloom filter      : ceil(m/8) bytes, bit i = bit (i mod 8) of byte (i div 8); footer
 *                       { uint64 estimated_elements; uint64 elements_added; float fpr; } (20 bytes)
 *                       m = ceil(-n ln p / 0.4804530139182), k = round(0.6931471805599453 m / n)
 *   Counting Bloom    : m uint32 cells + the same footer
 *   Count-min sketch  : width*depth int32 cells (row i at offset i*width) +
 *                       { uint32 width; uint32 depth; int64 elements_added; } (16 bytes)
 *   Expanding/rotating: per filter { uint64 elements_added; ceil(m/8) bytes } +
 *                       { uint64 filters; uint64 estimated_elements; uint64 elements_added; float fpr; } (28 bytes)
 *   Cuckoo            : capacity*bucket_size uint32 fingerprints (0 = empty, zero padded per bucket; a key whose
 *                       low hash bits are 0 uses fingerprint 1)
 *                       + { uint32 bucket_size; uint32 max_swaps; }
 *   Counting cuckoo   : capacity*bucket_size { uint32 fingerprint; uint32 count; } + same footer
 *   hashing           : h_i(key) = FNV-1a-64(key) with offset basis 14695981039346656037 + 31*i,
 *                       position = h_i mod m  (count-min: h_i mod width + i*width)
 * Host assumptions: little endian, natural alignment irrelevant (memcpy is used everywhere).
 */
#include <math.h>
#include <stdint.h>
#include <stdlib.h>
#include <string.h>

#define FNV64_BASIS 14695981039346656037ULL
#define FNV64_PRIME 1099511628211ULL

uint64_t ref_fnv1a64(const uint8_t *d, size_t n, uint64_t basis) {
  uint64_t h = basis;
  for (size_t i = 0; i < n; i++) {
    h ^= (uint64_t)d[i];
    h *= FNV64_PRIME;
  }
  return h;
}

uint32_t ref_fnv1a32(const uint8_t *d, size_t n, uint32_t basis) {
  uint32_t h = basis;
  for (size_t i = 0; i < n; i++) {
    h ^= (uint32_t)d[i];
    h *= 0x01000193u;
  }
  return h;
}

static uint64_t hash_i(const uint8_t *key, size_t klen, uint32_t i) {
  return ref_fnv1a64(key, klen, FNV64_BASIS + 31ULL * (uint64_t)i);
}

void ref_default_hashes(const uint8_t *key, size_t klen, int depth, uint64_t *out) {
  for (int i = 0; i < depth; i++) out[i] = hash_i(key, klen, (uint32_t)i);
}

/* returns 0 if ok */
int ref_bloom_params(uint64_t n, float p, uint64_t *m, uint32_t *k) {
  if (n == 0 || !(p > 0.0f) || !(p < 1.0f)) return -1;
  double mm = ceil((-(double)n * log((double)p)) / 0.4804530139182);
  if (mm < 1.0 || mm > 1e15) return -2;
  *m = (uint64_t)mm;
  double kk = round(0.6931471805599453 * mm / (double)n);
  if (kk < 1.0) return -3;
  *k = (uint32_t)kk;
  return 0;
}

/* (m, k) for count consecutive estimates n0, n0+1, ...; entries the sizing refuses get m = 0 */
void ref_bloom_params_sweep(uint64_t n0, uint64_t count, float p, uint64_t *m, uint32_t *k) {
  for (uint64_t i = 0; i < count; i++) {
    if (ref_bloom_params(n0 + i, p, &m[i], &k[i]) != 0) { m[i] = 0; k[i] = 0; }
  }
}

static int bloom_footer(const uint8_t *f, size_t len, uint64_t *est, uint64_t *added, float *fpr,
                        uint64_t *m, uint32_t *k) {
  if (len < 20) return -10;
  memcpy(est, f + len - 20, 8);
  memcpy(added, f + len - 12, 8);
  memcpy(fpr, f + len - 4, 4);
  return ref_bloom_params(*est, *fpr, m, k);
}

int ref_bloom_footer(const uint8_t *f, size_t len, uint64_t *est, uint64_t *added, float *fpr,
                     uint64_t *m, uint32_t *k) {
  return bloom_footer(f, len, est, added, fpr, m, k);
}

/* 1 = present, 0 = absent, <0 = malformed */
int ref_bloom_check(const uint8_t *f, size_t len, const uint8_t *key, size_t klen) {
  uint64_t est, added, m;
  uint32_t k;
  float fpr;
  int rc = bloom_footer(f, len, &est, &added, &fpr, &m, &k);
  if (rc) return rc;
  if (len != (m + 7) / 8 + 20) return -11;
  for (uint32_t i = 0; i < k; i++) {
    uint64_t pos = hash_i(key, klen, i) % m;
    if (((f[pos / 8] >> (pos % 8)) & 1u) == 0) return 0;
  }
  return 1;
}

/* min over the key's cells, <0 = malformed */
int64_t ref_cbloom_check(const uint8_t *f, size_t len, const uint8_t *key, size_t klen) {
  uint64_t est, added, m;
  uint32_t k;
  float fpr;
  int rc = bloom_footer(f, len, &est, &added, &fpr, &m, &k);
  if (rc) return rc;
  if (len != 4 * m + 20) return -11;
  int64_t best = -1;
  for (uint32_t i = 0; i < k; i++) {
    uint64_t pos = hash_i(key, klen, i) % m;
    uint32_t c;
    memcpy(&c, f + 4 * pos, 4);
    if (best < 0 || (int64_t)c < best) best = (int64_t)c;
  }
  return best;
}

static int64_t floordiv(int64_t a, int64_t b) {
  int64_t q = a / b, r = a % b;
  if (r != 0 && ((r < 0) != (b < 0))) q -= 1;
  return q;
}

static int cmp64(const void *a, const void *b) {
  int64_t x = *(const int64_t *)a, y = *(const int64_t *)b;
  return (x > y) - (x < y);
}

/* qtype 0 = min, 1 = mean, 2 = mean-min (floor arithmetic); returns 0 ok */
int ref_cms_query(const uint8_t *f, size_t len, const uint8_t *key, size_t klen, int qtype,
                  int64_t *out, int *negative_intermediate) {
  if (len < 16) return -10;
  uint32_t w, d;
  int64_t total;
  memcpy(&w, f + len - 16, 4);
  memcpy(&d, f + len - 12, 4);
  memcpy(&total, f + len - 8, 8);
  if (w == 0 || d == 0 || d > 4096) return -12;
  if (len != (size_t)4 * w * d + 16) return -11;
  int64_t vals[4096];
  for (uint32_t i = 0; i < d; i++) {
    uint64_t pos = hash_i(key, klen, i) % w + (uint64_t)i * w;
    int32_t c;
    memcpy(&c, f + 4 * pos, 4);
    vals[i] = c;
  }
  qsort(vals, d, sizeof(int64_t), cmp64);
  *negative_intermediate = 0;
  if (qtype == 0) {
    *out = vals[0];
  } else if (qtype == 1) {
    int64_t s = 0;
    for (uint32_t i = 0; i < d; i++) s += vals[i];
    if (s < 0) *negative_intermediate = 1;
    *out = floordiv(s, (int64_t)d);
  } else {
    if (w < 2) return -13;
    if (vals[0] == 0 && vals[d - 1] == 0) {
      *out = 0;
      return 0;
    }
    int64_t mm[4096];
    for (uint32_t i = 0; i < d; i++) {
      int64_t diff = total - vals[i];
      if (diff < 0) *negative_intermediate = 1;
      mm[i] = vals[i] - floordiv(diff, (int64_t)w - 1);
      if (mm[i] < 0) *negative_intermediate = 1;
    }
    qsort(mm, d, sizeof(int64_t), cmp64);
    if (d % 2 == 0)
      *out = floordiv(mm[d / 2] + mm[d / 2 - 1], 2);
    else
      *out = mm[d / 2];
  }
  return 0;
}

/* ---------------------------------- writers ------------------------------------------- */

/* keys: concatenated blob, off[nkeys+1] offsets.  Returns bytes written or <0. */
int64_t ref_bloom_write(uint64_t n, float p, const uint8_t *blob, const uint64_t *off,
                        const int32_t *seq, size_t nseq, uint8_t *out, size_t cap) {
  uint64_t m;
  uint32_t k;
  int rc = ref_bloom_params(n, p, &m, &k);
  if (rc) return rc;
  size_t bl = (size_t)((m + 7) / 8);
  if (cap < bl + 20) return -20;
  memset(out, 0, bl + 20);
  for (size_t s = 0; s < nseq; s++) {
    const uint8_t *key = blob + off[seq[s]];
    size_t klen = (size_t)(off[seq[s] + 1] - off[seq[s]]);
    for (uint32_t i = 0; i < k; i++) {
      uint64_t pos = hash_i(key, klen, i) % m;
      out[pos / 8] |= (uint8_t)(1u << (pos % 8));
    }
  }
  uint64_t added = nseq;
  memcpy(out + bl, &n, 8);
  memcpy(out + bl + 8, &added, 8);
  memcpy(out + bl + 16, &p, 4);
  return (int64_t)(bl + 20);
}

/* counting bloom: amt[s] > 0 add, < 0 legitimate removal (each occurrence of a cell is
 * changed by the amount); no saturation handling - callers stay below the limit */
int64_t ref_cbloom_write(uint64_t n, float p, const uint8_t *blob, const uint64_t *off,
                         const int32_t *seq, const int64_t *amt, size_t nseq, uint8_t *out,
                         size_t cap) {
  uint64_t m;
  uint32_t k;
  int rc = ref_bloom_params(n, p, &m, &k);
  if (rc) return rc;
  size_t bl = (size_t)(4 * m);
  if (cap < bl + 20) return -20;
  memset(out, 0, bl + 20);
  int64_t total = 0;
  for (size_t s = 0; s < nseq; s++) {
    const uint8_t *key = blob + off[seq[s]];
    size_t klen = (size_t)(off[seq[s] + 1] - off[seq[s]]);
    for (uint32_t i = 0; i < k; i++) {
      uint64_t pos = hash_i(key, klen, i) % m;
      uint32_t c;
      memcpy(&c, out + 4 * pos, 4);
      int64_t v = (int64_t)c + amt[s];
      if (v < 0 || v > 4294967295LL) return -21;
      c = (uint32_t)v;
      memcpy(out + 4 * pos, &c, 4);
    }
    total += amt[s];
  }
  uint64_t added = (uint64_t)total;
  memcpy(out + bl, &n, 8);
  memcpy(out + bl + 8, &added, 8);
  memcpy(out + bl + 16, &p, 4);
  return (int64_t)(bl + 20);
}

int64_t ref_cms_write(uint32_t w, uint32_t d, const uint8_t *blob, const uint64_t *off,
                      const int32_t *seq, const int64_t *amt, size_t nseq, uint8_t *out,
                      size_t cap) {
  size_t bl = (size_t)4 * w * d;
  if (cap < bl + 16) return -20;
  memset(out, 0, bl + 16);
  int64_t total = 0;
  for (size_t s = 0; s < nseq; s++) {
    const uint8_t *key = blob + off[seq[s]];
    size_t klen = (size_t)(off[seq[s] + 1] - off[seq[s]]);
    for (uint32_t i = 0; i < d; i++) {
      uint64_t pos = hash_i(key, klen, i) % w + (uint64_t)i * w;
      int32_t c;
      memcpy(&c, out + 4 * pos, 4);
      int64_t v = (int64_t)c + amt[s];
      if (v < -2147483648LL || v > 2147483647LL) return -21;
      c = (int32_t)v;
      memcpy(out + 4 * pos, &c, 4);
    }
    total += amt[s];
  }
  memcpy(out + bl, &w, 4);
  memcpy(out + bl + 4, &d, 4);
  memcpy(out + bl + 8, &total, 8);
  return (int64_t)(bl + 16);
}

/* expanding / rotating stream.  The caller (which models the growth rule) says, for every
 * insertion, which filter of the *final* list it landed in (filt[s], -1 = filter was dropped or
 * the add inserted nothing); total_adds is the number of add calls. */
int64_t ref_expanding_write(uint64_t n, float p, uint64_t nfilters, const uint8_t *blob,
                            const uint64_t *off, const int32_t *seq, const int32_t *filt,
                            size_t nseq, uint64_t total_adds, uint8_t *out, size_t cap) {
  uint64_t m;
  uint32_t k;
  int rc = ref_bloom_params(n, p, &m, &k);
  if (rc) return rc;
  size_t bl = (size_t)((m + 7) / 8);
  size_t need = (size_t)nfilters * (8 + bl) + 28;
  if (cap < need) return -20;
  memset(out, 0, need);
  for (size_t s = 0; s < nseq; s++) {
    if (filt[s] < 0) continue;
    if ((uint64_t)filt[s] >= nfilters) return -22;
    uint8_t *base = out + (size_t)filt[s] * (8 + bl);
    uint64_t cnt;
    memcpy(&cnt, base, 8);
    cnt += 1;
    memcpy(base, &cnt, 8);
    const uint8_t *key = blob + off[seq[s]];
    size_t klen = (size_t)(off[seq[s] + 1] - off[seq[s]]);
    for (uint32_t i = 0; i < k; i++) {
      uint64_t pos = hash_i(key, klen, i) % m;
      base[8 + pos / 8] |= (uint8_t)(1u << (pos % 8));
    }
  }
  uint8_t *ft = out + (size_t)nfilters * (8 + bl);
  memcpy(ft, &nfilters, 8);
  memcpy(ft + 8, &n, 8);
  memcpy(ft + 16, &total_adds, 8);
  memcpy(ft + 24, &p, 4);
  return (int64_t)need;
}

/* cuckoo: table given as flat fingerprints with per-bucket lengths */
int64_t ref_cuckoo_write(uint32_t capacity, uint32_t bucket_size, uint32_t max_swaps,
                         const uint32_t *fps, const uint32_t *counts /* NULL = plain */,
                         const uint32_t *blen, uint8_t *out, size_t cap) {
  size_t cell = counts ? 8 : 4;
  size_t need = (size_t)capacity * bucket_size * cell + 8;
  if (cap < need) return -20;
  memset(out, 0, need);
  size_t src = 0;
  for (uint32_t b = 0; b < capacity; b++) {
    if (blen[b] > bucket_size) return -23;
    for (uint32_t j = 0; j < blen[b]; j++, src++) {
      uint8_t *dst = out + ((size_t)b * bucket_size + j) * cell;
      memcpy(dst, &fps[src], 4);
      if (counts) memcpy(dst + 4, &counts[src], 4);
    }
  }
  memcpy(out + need - 8, &bucket_size, 4);
  memcpy(out + need - 4, &max_swaps, 4);
  return (int64_t)need;
}

/* cuckoo reader: count stored for key (plain: 1/0), <0 malformed.  fingerprint = low
 * fp_bits of FNV-1a-64(key); candidates fp % capacity and FNV-1a-64(decimal text of fp) % capacity */
int64_t ref_cuckoo_check(const uint8_t *f, size_t len, int counting, uint32_t fp_bits,
                         const uint8_t *key, size_t klen) {
  if (len < 8) return -10;
  uint32_t bs, swaps;
  memcpy(&bs, f + len - 8, 4);
  memcpy(&swaps, f + len - 4, 4);
  size_t cell = counting ? 8 : 4;
  if (bs == 0 || (len - 8) % (cell * bs) != 0) return -11;
  uint64_t capacity = (len - 8) / cell / bs;
  if (capacity == 0) return -12;
  uint64_t h = ref_fnv1a64(key, klen, FNV64_BASIS);
  uint32_t fp = fp_bits >= 32 ? (uint32_t)h : (uint32_t)(h & ((1ULL << fp_bits) - 1));
  if (fp == 0) fp = 1; /* 0 marks an empty slot, so it is never used as a fingerprint */
  char txt[16];
  int tl = 0;
  {
    char tmp[16];
    uint32_t v = fp;
    int n = 0;
    do {
      tmp[n++] = (char)('0' + v % 10);
      v /= 10;
    } while (v);
    while (n) txt[tl++] = tmp[--n];
  }
  uint64_t c1 = fp % capacity;
  uint64_t c2 = ref_fnv1a64((const uint8_t *)txt, (size_t)tl, FNV64_BASIS) % capacity;
  uint64_t cand[2] = {c1, c2};
  for (int c = 0; c < 2; c++) {
    for (uint32_t j = 0; j < bs; j++) {
      const uint8_t *src = f + (cand[c] * bs + j) * cell;
      uint32_t v;
      memcpy(&v, src, 4);
      if (v == fp && v != 0) {
        if (!counting) return 1;
        uint32_t cnt;
        memcpy(&cnt, src + 4, 4);
        return (int64_t)cnt;
      }
    }
  }
  return 0;
}
